"""Shipped inputs (dumps and skeleton images of the repository) and synthetic rasters."""
import glob
import io
import os

import numpy as np

REPO = os.environ.get("VERIF_REPO", "/repo")

_SE = None


def se_files(small=False):
    global _SE
    if _SE is None:
        fs = sorted(glob.glob(os.path.join(REPO, "tests/data/**/*.dmp"), recursive=True) +
                    glob.glob(os.path.join(REPO, "examples/data/**/*.dmp"), recursive=True))
        _SE = [os.path.relpath(f, REPO) for f in fs]
    if small:
        sm = [f for f in _SE if "12_12" not in f]
        return sm or _SE
    return _SE


def image_files():
    fs = sorted(glob.glob(os.path.join(REPO, "tests/data/**/*.tif"), recursive=True) +
                glob.glob(os.path.join(REPO, "examples/data/**/*.tif"), recursive=True))
    return [os.path.relpath(f, REPO) for f in fs]


def random_image_input(r, tier):
    files = image_files()
    f = r.choice(files)
    inp = {"kind": "image", "file": f, "sym": r.randrange(8), "pad": r.choice([0, 0, 3, 17]),
           "mirror_y": r.random() < 0.3, "reduce_amount": False}
    if r.random() < 0.2:
        inp["rescale"] = r.choice([[2.0, 2.0], [0.5, 0.25], [3.0, 1.0]])
        inp["offset"] = r.choice([[0, 0], [100, 50], [-20, 700]])
    # windows of a shipped image: cheaper and many more distinct tissues
    if tier == "quick" or r.random() < 0.7:
        inp["window"] = [round(r.random(), 3), round(r.random(), 3), r.choice([140, 180, 240, 320])]
    return inp


_IMG_CACHE = {}


def _load(file):
    if file not in _IMG_CACHE:
        from PIL import Image
        with Image.open(os.path.join(REPO, file)) as im:
            _IMG_CACHE[file] = (np.array(im.convert("L")) > 127).astype(np.uint8) * 255
    return _IMG_CACHE[file]


def _sym(a, k):
    if k & 4:
        a = a.T
    if k & 1:
        a = a[::-1, :]
    if k & 2:
        a = a[:, ::-1]
    return np.ascontiguousarray(a)


_REGIONS = {}


def _regions(file):
    """Connected black regions (the cells) of a shipped skeleton: labels, stats, centroids."""
    import cv2
    if file not in _REGIONS:
        a = _load(file)
        inv = (a == 0).astype(np.uint8)
        n, lab, stats, cent = cv2.connectedComponentsWithStats(inv, connectivity=4)
        H, W = a.shape
        border = set(np.unique(lab[0, :])) | set(np.unique(lab[-1, :])) | set(np.unique(lab[:, 0])) | set(np.unique(lab[:, -1]))
        areas = stats[:, cv2.CC_STAT_AREA]
        inner = [i for i in range(1, n) if i not in border and areas[i] >= 30]
        med = float(np.median([areas[i] for i in inner])) if inner else 0.0
        cells = [i for i in inner if areas[i] <= 5 * med]
        _REGIONS[file] = (lab, cent, cells)
    return _REGIONS[file]


def _window(file, win):
    """A sub-tissue of a shipped skeleton: the complete cells whose centroid lies in the window,
    drawn with exactly the skeleton pixels of the original image that touch them (so junction
    pixel patterns are the original ones and every line that remains separates a kept cell from
    something).  Stubs of lines that led to dropped cells are pruned."""
    import cv2
    a = _load(file)
    lab, cent, cells = _regions(file)
    fx, fy, size = win
    H, W = a.shape
    h = min(size, H)
    w = min(size, W)
    for k in range(16):
        gx = (fx + 0.0618 * k) % 1.0
        gy = (fy + 0.0382 * k) % 1.0
        y0 = int(gy * (H - h))
        x0 = int(gx * (W - w))
        sel = [i for i in cells if x0 <= cent[i][0] < x0 + w and y0 <= cent[i][1] < y0 + h]
        if len(sel) >= 3:
            break
    else:
        return a
    mask = np.isin(lab, sel).astype(np.uint8)
    dil = cv2.dilate(mask, np.ones((3, 3), np.uint8))
    sk = ((a > 0) & (dil > 0)).astype(np.uint8)
    # prune stubs: white pixels with at most one white 8-neighbour
    ker = np.ones((3, 3), np.float32)
    ker[1, 1] = 0
    for _ in range(12):
        nb = cv2.filter2D(sk.astype(np.float32), -1, ker, borderType=cv2.BORDER_CONSTANT)
        end = (sk > 0) & (nb <= 1)
        if not end.any():
            break
        sk[end] = 0
    # one tissue: keep the largest 8-connected piece of skeleton (a selected cell that touches no other
    # selected cell would otherwise be a separate ring whose inside and outside contour coincide)
    n, lab2, stats2, _ = cv2.connectedComponentsWithStats(sk, connectivity=8)
    if n > 2:
        big = 1 + int(np.argmax(stats2[1:, cv2.CC_STAT_AREA]))
        sk = (lab2 == big).astype(np.uint8)
    ys, xs = np.nonzero(sk)
    if len(ys) == 0:
        return a
    sk = sk[max(0, ys.min() - 2):ys.max() + 3, max(0, xs.min() - 2):xs.max() + 3]
    return np.ascontiguousarray(sk * 255)


def _framed_window(file, win):
    """A rectangular cut closed by a one-pixel frame.  Lines grazing the frame enclose micro-regions
    of a few pixels: these are the 'triangles in the middle' the parser's inner-triangle removal is
    written for (that code is reached by no shipped image)."""
    a = _load(file)
    fx, fy, size = win
    H, W = a.shape
    h = min(size, H)
    w = min(size, W)
    y0 = int(fy * (H - h))
    x0 = int(fx * (W - w))
    b = a[y0:y0 + h, x0:x0 + w].copy()
    b[0, :] = 255
    b[-1, :] = 255
    b[:, 0] = 255
    b[:, -1] = 255
    return b


def image_bytes(inp):
    from PIL import Image
    if inp["kind"] == "raster":
        a = raster_array(inp)
    else:
        a = _load(inp["file"])
        if inp.get("window") and inp.get("framed"):
            a = _framed_window(inp["file"], inp["window"])
        elif inp.get("window"):
            a = _window(inp["file"], inp["window"])
        a = _sym(a, inp.get("sym", 0))
    pad = inp.get("pad", 0) + 2
    a = np.pad(a, pad)
    buf = io.BytesIO()
    Image.fromarray(a).convert("RGB").save(buf, format="TIFF")
    return buf.getvalue()


# ---------------------------------------------------------------- synthetic rasters
def random_raster_input(r, tier):
    for _ in range(30):
        inp = _random_raster_input(r, tier)
        if raster_ok(inp):
            return inp
    return inp


def _random_raster_input(r, tier):
    from . import tissue as TS
    # C15's input domain: every ridge longer than 8 pixels (0.3 lattice units at >= 28 px per unit)
    spec = TS.random_spec(r, max_side=4, kmax=0, min_ridge=0.3)
    spec["pts"] = {"mode": "const", "k": 0}
    spec["keep"] = None if r.random() < 0.6 else spec["keep"]
    if spec["keep"] is None and not TS.spec_ok(spec):
        spec["keep"] = [0]
    inp = {"kind": "raster", "spec": spec, "px": r.choice([28, 36, 48]), "curv": r.choice([0.0, 0.0, 0.1]),
           "pad": r.choice([0, 2, 9]), "mirror_y": r.random() < 0.3,
           "reduce_amount": r.random() < 0.15}
    if r.random() < 0.2:
        inp["rescale"] = r.choice([[2.0, 2.0], [0.5, 0.25], [3.0, 1.0]])
        inp["offset"] = r.choice([[0, 0], [100, 50], [-20, 700]])
    return inp


def raster_ok(inp, min_gap=6):
    """Pixel-level form of C15's input domain ("all ridges longer than 8 pixels"): the junction pixel
    clusters of the thinned raster (white pixels with three or more white 8-neighbours, grouped when they
    touch) must be at least min_gap pixels apart.  Rasterising and thinning can otherwise leave a two- or
    three-pixel link between two junction clusters, which the parser's artefact heuristics take apart."""
    import cv2
    a = (raster_array(inp) > 0).astype(np.uint8)
    ker = np.ones((3, 3), np.float32)
    ker[1, 1] = 0
    nb = cv2.filter2D(a.astype(np.float32), -1, ker, borderType=cv2.BORDER_CONSTANT)
    junc = ((a > 0) & (nb >= 3)).astype(np.uint8)
    n, lab, stats, cent = cv2.connectedComponentsWithStats(junc, connectivity=8)
    if n <= 2:
        return True
    ys, xs = np.nonzero(junc)
    labs = lab[ys, xs]
    pts = np.stack([xs, ys], axis=1).astype(np.float32)
    for i in range(1, n):
        pi = pts[labs == i]
        po = pts[labs > i]
        if len(po) == 0:
            continue
        d = np.abs(pi[:, None, :] - po[None, :, :]).max(axis=2)   # Chebyshev distance
        if d.min() < min_gap:
            return False
    return True


def raster_array(inp):
    """Draw the tissue's interfaces as 8-connected one-pixel lines and thin the result."""
    import cv2
    from . import tissue as TS
    spec = dict(inp["spec"])
    spec["scale"] = float(inp["px"])
    spec["rot"] = spec.get("rot", 0.0)
    spec["shift"] = [0.0, 0.0]
    T = TS.build_tissue(spec)
    xs = [p[0] for p in T.verts.values()]
    ys = [p[1] for p in T.verts.values()]
    ox, oy = min(xs) - 6, min(ys) - 6
    W = int(max(xs) - ox + 8)
    H = int(max(ys) - oy + 8)
    img = np.zeros((H, W), np.uint8)
    for eid, a, b in T.edges:
        pa = (int(round(T.verts[a][0] - ox)), int(round(T.verts[a][1] - oy)))
        pb = (int(round(T.verts[b][0] - ox)), int(round(T.verts[b][1] - oy)))
        cv2.line(img, pa, pb, 255, 1, cv2.LINE_8)
    sk = zhang_suen(img > 0)
    return sk.astype(np.uint8) * 255


def zhang_suen(im):
    """Plain Zhang-Suen thinning (vectorised), deterministic."""
    im = np.pad(im.astype(np.uint8), 1)
    changed = True
    while changed:
        changed = False
        for step in (0, 1):
            P2 = im[:-2, 1:-1]; P3 = im[:-2, 2:]; P4 = im[1:-1, 2:]; P5 = im[2:, 2:]
            P6 = im[2:, 1:-1]; P7 = im[2:, :-2]; P8 = im[1:-1, :-2]; P9 = im[:-2, :-2]
            C = im[1:-1, 1:-1]
            nb = [P2, P3, P4, P5, P6, P7, P8, P9]
            B = sum(n.astype(np.int32) for n in nb)
            A = sum(((nb[i] == 0) & (nb[(i + 1) % 8] == 1)).astype(np.int32) for i in range(8))
            if step == 0:
                cond = (P2 * P4 * P6 == 0) & (P4 * P6 * P8 == 0)
            else:
                cond = (P2 * P4 * P8 == 0) & (P2 * P6 * P8 == 0)
            rem = (C == 1) & (B >= 2) & (B <= 6) & (A == 1) & cond
            if rem.any():
                im[1:-1, 1:-1][rem] = 0
                changed = True
    return im[1:-1, 1:-1].astype(bool)
