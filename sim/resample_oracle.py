"""C11 oracle: a small reference analysis of the pre-call mesh (pure Python over a
snapshot, no forsys code) and the checks G1-G4 relating it to the post-call mesh.

Only the statement's own inequalities are used ("at most", "subsequence"), never equality
with a particular choice of sample indices.
"""

TOL = 1e-9


def analyse(pre):
    """pre: snapshot dict of mesh_oracle.snapshot.  Degrees come from the edge list, cell
    membership from the cycles (never from ownEdges / ownCells)."""
    nbr = {}
    for eid, (a, b) in pre["e"].items():
        nbr.setdefault(a, []).append(b)
        nbr.setdefault(b, []).append(a)
    deg = {v: len(n) for v, n in nbr.items()}
    junc = {v for v, d in deg.items() if d >= 3}
    ncells = {}
    for cid, cyc in pre["c"].items():
        for v in set(cyc):
            ncells[v] = ncells.get(v, 0) + 1
    # interfaces: maximal paths between junctions
    interfaces = []
    seen = set()
    for j in sorted(junc):
        for first in nbr[j]:
            path = [j, first]
            prev, cur = j, first
            ok = True
            while cur not in junc:
                ns = nbr.get(cur, [])
                if len(ns) != 2:
                    ok = False  # dangling end (degree 1): not an interface between junctions
                    break
                nxt = ns[0] if ns[0] != prev else ns[1]
                if ns[0] == ns[1]:
                    nxt = ns[0]
                prev, cur = cur, nxt
                path.append(cur)
                if len(path) > len(pre["v"]) + 2:
                    ok = False
                    break
            if not ok:
                continue
            key = tuple(path) if tuple(path) <= tuple(path[::-1]) else tuple(path[::-1])
            if key in seen:
                continue
            seen.add(key)
            interfaces.append(list(key))
    cells_with_j = {cid for cid, cyc in pre["c"].items() if any(v in junc for v in cyc)}
    # adjacency: cells sharing a mesh edge
    pair_cells = {}
    for cid, cyc in pre["c"].items():
        n = len(cyc)
        for i in range(n):
            a, b = cyc[i], cyc[(i + 1) % n]
            pair_cells.setdefault(frozenset((a, b)), set()).add(cid)
    edge_pairs = {frozenset(p) for p in pre["e"].values()}
    adj = set()
    shared = {}
    for pr, cs in pair_cells.items():
        if pr in edge_pairs and len(cs) >= 2:
            cl = sorted(cs)
            for i in range(len(cl)):
                for k in range(i + 1, len(cl)):
                    adj.add((cl[i], cl[k]))
                    shared.setdefault((cl[i], cl[k]), set()).add(pr)
    def pinches(p):
        # contracting it would force some cell to visit the merged vertex twice: the contraction clause and the
        # cycle clauses of the statement cannot both hold, so such an interface is "already short: unchanged"
        for cyc in pre["c"].values():
            if p[0] in cyc and p[1] in cyc:
                gap = abs(cyc.index(p[0]) - cyc.index(p[1]))
                if gap != 1 and gap != len(cyc) - 1:
                    return True
        return False

    contractible = [p for p in interfaces
                    if len(p) == 2 and ncells.get(p[0], 0) < 3 and ncells.get(p[1], 0) < 3 and p[0] != p[1]
                    and not pinches(p)]
    pl = [frozenset(p) for p in pre["e"].values()]
    # outside the judged domain: two-vertex cells, parallel or self edges, and mesh edges that lie on
    # no cell cycle (left by a dump whose faces were cut out): resampling rebuilds edges from cycles only
    degenerate = any(len(c) < 3 for c in pre["c"].values()) or len(set(pl)) != len(pl) \
        or any(len(p) != 2 for p in pl) or any(p not in pair_cells for p in pl)
    return {"degenerate": degenerate, "deg": deg, "junc": junc, "ncells": ncells, "interfaces": interfaces,
            "cells_with_j": cells_with_j, "adj": adj, "shared": shared, "pair_cells": pair_cells,
            "contractible": contractible}


def _is_cyclic_subseq(P, Q):
    """P, Q lists; is P a cyclic subsequence of the cycle Q (same direction)?"""
    if not P:
        return True
    if len(P) > len(Q):
        return False
    if len(set(Q)) == len(Q):
        pos = {q: i for i, q in enumerate(Q)}
        try:
            idx = [pos[p] for p in P]
        except KeyError:
            return False
        if len(set(idx)) != len(idx):
            return False
        desc = sum(1 for i in range(len(idx)) if idx[i] > idx[(i + 1) % len(idx)])
        return desc <= 1 if len(idx) > 1 else True
    n = len(Q)
    for r in range(n):
        R = Q[r:] + Q[:r]
        it = iter(R)
        if all(any(p == q for q in it) for p in P):
            return True
    return False


def check_resample(pre, post, ne, flag, an=None):
    """-> list of violation records of G1..G4 for one successful generate_mesh call."""
    an = an or analyse(pre)
    out = []

    def add(g, what, **kw):
        if sum(1 for o in out if o["inv"] == g) < 6:
            out.append({"inv": g, "what": what, **kw})

    merging = bool(flag) and ne >= 2
    K = an["contractible"] if merging else []
    # vertices that merging may legitimately consume
    touch = {}
    for p in K:
        for v in p:
            touch[v] = touch.get(v, 0) + 1
    isolated = [p for p in K if touch[p[0]] == 1 and touch[p[1]] == 1]
    cascade_v = {v for p in K if p not in isolated for v in p}
    M = set(touch)

    same = {v for v, xy in post["v"].items() if v in pre["v"] and pre["v"][v] == xy}
    new = {v for v in post["v"] if v not in same}
    moved = {v for v in new if v in pre["v"] and v not in M}
    post_nbr = {}
    for eid, (a, b) in post["e"].items():
        post_nbr.setdefault(a, []).append(b)
        post_nbr.setdefault(b, []).append(a)
    post_pairs = {frozenset(p) for p in post["e"].values()}

    # G1 junctions shared by >= 3 cells keep their exact position
    for v, n in an["ncells"].items():
        if n >= 3 and v not in same:
            add("G1", "junction shared by three or more cells moved or vanished", vertex=v,
                before=pre["v"].get(v), after=post["v"].get(v))
    if not merging and new:
        add("G3", "resampling without merging created or moved vertices", vertices=sorted(new)[:6])

    # contraction bookkeeping: which new vertex stands for which isolated interface
    subst = {}  # pre vertex -> new vertex
    for p in isolated:
        a, b = p
        ax, ay = pre["v"][a]
        bx, by = pre["v"][b]
        mx, my = (ax + bx) / 2, (ay + by) / 2
        cand = [v for v in new if abs(post["v"][v][0] - mx) <= TOL * max(1, abs(mx))
                and abs(post["v"][v][1] - my) <= TOL * max(1, abs(my))]
        gone = a not in same and b not in same
        owners = an["pair_cells"].get(frozenset(p), set())
        if gone and len(cand) >= 1:
            subst[a] = cand[0]
            subst[b] = cand[0]
        elif gone and not cand:
            add("G3", "two-point border interface not contracted to the midpoint of its ends",
                interface=p, midpoint=[mx, my],
                new_vertices=[[v, list(post["v"][v])] for v in sorted(new)[:4]])
        elif not gone:
            if a in same and b in same and frozenset(p) in post_pairs:
                if len(owners) == 1:
                    add("G3", "two-point interface on the tissue border was not contracted", interface=p)
            else:
                add("G3", "two-point border interface half-contracted", interface=p)
    # members of a cascade (contractions that share a vertex): where the merged vertex ends up is not determined,
    # but a two-point interface that lies on the border proper (one owning cell) must be gone all the same
    for p in K:
        if p in isolated:
            continue
        owners = an["pair_cells"].get(frozenset(p), set())
        if len(owners) == 1 and (p[0] in same or p[1] in same):
            add("G3", "two-point interface on the tissue border was not contracted: one of its ends is still there "
                      "(chain of contractions)", interface=p, surviving=[v for v in p if v in same])
    if merging and not cascade_v:
        unexplained = new - set(subst.values())
        if unexplained:
            add("G3", "vertices appeared that no contraction explains", vertices=sorted(unexplained)[:6])
    if moved and not cascade_v:
        pass  # already reported through G3 'unexplained' or G1

    # G3 per interface
    Kset = {tuple(p) for p in K}
    for p in an["interfaces"]:
        if tuple(p) in Kset:
            continue
        if any(v in cascade_v for v in (p[0], p[-1])):
            continue  # neighbours of a cascade: position of the merged end is not determined
        L = len(p)
        surv = []
        for i, v in enumerate(p):
            if v in same:
                surv.append(v)
            elif (i == 0 or i == L - 1) and v in subst:
                surv.append(subst[v])
            elif i == 0 or i == L - 1:
                add("G3", "interface lost an end", interface=_short(p), end=v)
        if L > ne + 1:
            if len(surv) > ne + 1:
                add("G3", "interface keeps more than ne+1 points", interface=_short(p), kept=len(surv), ne=ne)
        else:
            if len(surv) != L:
                add("G3", "interface already short enough was changed", interface=_short(p), kept=len(surv), ne=ne)
        # ordered path in the post mesh
        for a, b in zip(surv, surv[1:]):
            if frozenset((a, b)) not in post_pairs:
                add("G3", "kept points of an interface are not joined in order", interface=_short(p), pair=[a, b])
                break
        for v in surv[1:-1]:
            if len(post_nbr.get(v, [])) != 2:
                add("G3", "interior point of an interface is no longer interior", interface=_short(p), vertex=v,
                    degree=len(post_nbr.get(v, [])))
                break

    # G3f a mesh edge joins two different points; and (no cascade) there is exactly one mesh edge per
    # pair of consecutive kept points - nothing left over from a contraction
    for eid, (a, b) in post["e"].items():
        if a == b:
            add("G3", "mesh edge joins a point to itself", edge=eid, vertex=a)
    if not cascade_v and not any(o["inv"] == "G3" for o in out):
        expected = 0
        for p in an["interfaces"]:
            if tuple(p) in Kset and (p[0] in subst or p[1] in subst):
                continue   # contracted to one vertex: no edge left
            kept = sum(1 for i, v in enumerate(p) if v in same or ((i == 0 or i == len(p) - 1) and v in subst))
            expected += max(0, kept - 1)
        if expected != len(post["e"]):
            add("G3", "number of mesh edges differs from the number of consecutive kept point pairs",
                edges=len(post["e"]), expected=expected)

    # G3e no foreign edges between old vertices
    if not cascade_v:
        on_if = set()
        for p in an["interfaces"]:
            sv = [v for v in p if v in same]
            for a, b in zip(sv, sv[1:]):
                on_if.add(frozenset((a, b)))
        for eid, (a, b) in post["e"].items():
            if a in same and b in same and frozenset((a, b)) not in on_if:
                # allowed when one of them replaced a merged end? no: both old
                add("G3", "mesh edge joins points that are not consecutive kept points of one interface",
                    edge=eid, pair=[a, b])

    # G2 cells and adjacencies
    for cid in sorted(an["cells_with_j"]):
        if cid not in post["c"] or len(post["c"][cid]) == 0:
            add("G2", "cell that has a junction vanished", cell=cid)
    post_pair_cells = {}
    post_vcells = {}
    for cid, cyc in post["c"].items():
        n = len(cyc)
        for i in range(n):
            post_pair_cells.setdefault(frozenset((cyc[i], cyc[(i + 1) % n])), set()).add(cid)
        for v in cyc:
            post_vcells.setdefault(v, set()).add(cid)
    post_adj = set()
    for pr, cs in post_pair_cells.items():
        if pr in post_pairs and len(cs) >= 2:
            cl = sorted(cs)
            for i in range(len(cl)):
                for k in range(i + 1, len(cl)):
                    post_adj.add((cl[i], cl[k]))
    for (c1, c2) in sorted(an["adj"]):
        if (c1, c2) in post_adj:
            continue
        if c1 not in an["cells_with_j"] or c2 not in an["cells_with_j"]:
            continue   # a cell without a junction may vanish, and its adjacencies with it
        if merging:
            # the whole shared boundary may have been contractible: the cells then meet at a point
            sh = an["shared"][(c1, c2)]
            if all(tuple(sorted(pr)) in {tuple(sorted(k)) for k in K} for pr in sh):
                continue
            if cascade_v and any(v in cascade_v for pr in sh for v in pr):
                continue
        add("G2", "two cells that shared an interface no longer do", cells=[c1, c2])

    # G4 cycles
    for cid, cyc in post["c"].items():
        if cid not in pre["c"]:
            add("G4", "cell appeared", cell=cid)
            continue
        Q = pre["c"][cid]
        if cascade_v and any(v in cascade_v for v in Q):
            continue
        Qs = []
        for v in Q:
            w = subst.get(v, v)
            if Qs and Qs[-1] == w:
                continue
            Qs.append(w)
        if len(Qs) > 1 and Qs[0] == Qs[-1]:
            Qs.pop()
        P = list(cyc)
        gone = [v for v in P if v not in post["v"]]
        if gone:
            add("G4", "cell cycle keeps a point that resampling removed from the mesh", cell=cid, vertices=gone[:6])
            continue
        if len(set(P)) != len(P):
            add("G4", "cell cycle repeats a vertex", cell=cid)
            continue
        if not _is_cyclic_subseq(P, Qs):
            add("G4", "cell cycle is not a cyclic subsequence of its original cycle", cell=cid,
                after=_short(P), before=_short(Qs))
    return out, {"contractible": len(K), "isolated": len(isolated), "cascade": bool(cascade_v),
                 "shortened": sum(1 for p in an["interfaces"] if len(p) > ne + 1),
                 "interfaces": len(an["interfaces"])}


def same_mesh(a, b):
    """G5: vertex set + coordinates, cell cycles, edge set as unordered pairs."""
    diffs = []
    if a["v"] != b["v"]:
        ka, kb = set(a["v"]), set(b["v"])
        diffs.append({"what": "vertices differ", "only_first": sorted(ka - kb)[:6], "only_second": sorted(kb - ka)[:6],
                      "moved": sorted(v for v in ka & kb if a["v"][v] != b["v"][v])[:6]})
    if a["c"] != b["c"]:
        diffs.append({"what": "cell cycles differ",
                      "cells": sorted(c for c in set(a["c"]) | set(b["c"]) if a["c"].get(c) != b["c"].get(c))[:6]})
    ea = {frozenset(p) for p in a["e"].values()}
    eb = {frozenset(p) for p in b["e"].values()}
    if ea != eb:
        diffs.append({"what": "mesh edges differ", "only_first": sorted(sorted(p) for p in ea - eb)[:6],
                      "only_second": sorted(sorted(p) for p in eb - ea)[:6]})
    return diffs


def _short(p):
    p = list(p)
    return p if len(p) <= 8 else p[:4] + ["..."] + p[-3:]
