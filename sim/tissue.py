"""Synthetic tissues (pure Python / NumPy / scipy.spatial, no forsys code).

A tissue is built as a pure function of a JSON spec, so that a replay file that stores
the spec does not depend on any PRNG state of the generator.

Tissue:
  verts : {vid: (x, y)}                 coordinates rounded to 3 decimals
  cells : {cid: [vid, ...]}             vertex cycle
  edges : [(eid, va, vb), ...]          every adjacent pair of every cycle exactly once
  ridge_of_edge : {eid: ridge index}    which Voronoi ridge (interface piece) an edge is on
  gt    : {eid: float}                  ground-truth tension (constant along a ridge)
  pressure : {cid: float}
"""
import math
import random
from dataclasses import dataclass, field

import numpy as np
from scipy.spatial import Voronoi


@dataclass
class Tissue:
    verts: dict
    cells: dict
    edges: list
    gt: dict
    pressure: dict
    meta: dict = field(default_factory=dict)


def _rng(spec, name):
    return random.Random(f"{spec.get('sseed', 0)}:{name}")


def _sites(spec):
    nx, ny = spec["nx"], spec["ny"]
    r = _rng(spec, "sites")
    jit = spec.get("jitter", 0.2)
    hexo = spec.get("hex", True)
    pts = []
    inner = []
    for j in range(-1, ny + 1):
        for i in range(-1, nx + 1):
            x = i + (0.5 if (hexo and j % 2) else 0.0)
            y = j * (0.8660254 if hexo else 1.0)
            x += (r.random() * 2 - 1) * jit
            y += (r.random() * 2 - 1) * jit
            if 0 <= i < nx and 0 <= j < ny:
                inner.append(len(pts))
            pts.append((x, y))
    return np.array(pts), inner


def _quad_cells(spec):
    """Jittered square lattice: every interior vertex is a four-fold junction."""
    nx, ny = spec["nx"], spec["ny"]
    r = _rng(spec, "sites")
    jit = min(spec.get("jitter", 0.2), 0.25)
    vv = []
    for j in range(ny + 1):
        for i in range(nx + 1):
            vv.append((i + (r.random() * 2 - 1) * jit, j + (r.random() * 2 - 1) * jit))
    cells = []
    for j in range(ny):
        for i in range(nx):
            a = j * (nx + 1) + i
            cells.append([a, a + 1, a + nx + 2, a + nx + 1])
    return np.array(vv), cells


def _voronoi_cells(spec):
    """-> vor vertices (array), cell list [[vor vertex idx ccw]], adjacency via ridges."""
    if spec.get("lattice") == "quad":
        return _quad_cells(spec)
    pts, inner = _sites(spec)
    vor = Voronoi(pts)
    cells = []
    for s in inner:
        reg = vor.regions[vor.point_region[s]]
        if len(reg) == 0 or -1 in reg:
            return None
        c = pts[s]
        reg = sorted(reg, key=lambda v: math.atan2(vor.vertices[v][1] - c[1], vor.vertices[v][0] - c[0]))
        cells.append(reg)
    return vor.vertices, cells


def _connected(keep, cellv):
    keep = list(keep)
    if not keep:
        return False
    ridges = {}
    for c in keep:
        cyc = cellv[c]
        for a, b in zip(cyc, cyc[1:] + cyc[:1]):
            ridges.setdefault((min(a, b), max(a, b)), []).append(c)
    adj = {c: set() for c in keep}
    for cs in ridges.values():
        if len(cs) == 2:
            adj[cs[0]].add(cs[1])
            adj[cs[1]].add(cs[0])
    seen = {keep[0]}
    todo = [keep[0]]
    while todo:
        c = todo.pop()
        for d in adj[c]:
            if d not in seen:
                seen.add(d)
                todo.append(d)
    return len(seen) == len(keep)


def cell_adjacency(spec):
    vv, cellv = _voronoi_cells(spec)
    ridges = {}
    for c, cyc in enumerate(cellv):
        for a, b in zip(cyc, cyc[1:] + cyc[:1]):
            ridges.setdefault((min(a, b), max(a, b)), []).append(c)
    adj = {c: set() for c in range(len(cellv))}
    for cs in ridges.values():
        if len(cs) == 2:
            adj[cs[0]].add(cs[1])
            adj[cs[1]].add(cs[0])
    return adj


def spec_ok(spec):
    """Generic position: bounded cells, no very short ridge, connected mask."""
    vc = _voronoi_cells(spec)
    if vc is None:
        return False
    vv, cellv = vc
    keep = spec.get("keep")
    if keep is None:
        keep = list(range(len(cellv)))
    if not keep or any(k >= len(cellv) for k in keep):
        return False
    for c in keep:
        cyc = cellv[c]
        if len(cyc) < 3:
            return False
        for a, b in zip(cyc, cyc[1:] + cyc[:1]):
            if np.hypot(*(vv[a] - vv[b])) < spec.get("min_ridge", 0.12):
                return False
    return _connected(keep, cellv)


def _arc_points(p, q, k, bulge):
    """k interior points from p to q on a circular arc with sagitta bulge*|pq| (0: straight)."""
    p = np.asarray(p, float)
    q = np.asarray(q, float)
    if k == 0:
        return []
    ts = [(i + 1) / (k + 1) for i in range(k)]
    if abs(bulge) < 1e-9:
        return [tuple(p + t * (q - p)) for t in ts]
    d = q - p
    L = float(np.hypot(*d))
    s = bulge * L
    R = (L * L / 4 + s * s) / (2 * abs(s))
    n = np.array([-d[1], d[0]]) / L
    mid = (p + q) / 2
    # centre on the side opposite to the bulge
    c = mid - np.sign(s) * (R - abs(s)) * n
    a0 = math.atan2(p[1] - c[1], p[0] - c[0])
    a1 = math.atan2(q[1] - c[1], q[0] - c[0])
    da = a1 - a0
    while da > math.pi:
        da -= 2 * math.pi
    while da < -math.pi:
        da += 2 * math.pi
    return [(c[0] + R * math.cos(a0 + t * da), c[1] + R * math.sin(a0 + t * da)) for t in ts]


def build_tissue(spec, frame=0):
    vv, cellv = _voronoi_cells(spec)
    keep = spec.get("keep")
    kbf = spec.get("keep_by_frame") or {}
    if str(frame) in kbf:
        keep = kbf[str(frame)]      # a later frame that lost (or gained) cells
    if keep is None:
        keep = list(range(len(cellv)))
    keep = sorted(set(keep))
    scale = spec.get("scale", 30.0)
    rot = spec.get("rot", 0.0)
    shift = spec.get("shift", [0.0, 0.0])
    cr, sr = math.cos(rot), math.sin(rot)

    used_v = sorted({v for c in keep for v in cellv[c]})
    centre = np.mean([vv[v] for v in used_v], axis=0)

    # motion of junctions for frame > 0 (series): drift + affine stretch + noise, all small
    mot = spec.get("motion", {})
    amp = mot.get("amp", 0.0)
    drift = mot.get("drift", [0.0, 0.0])
    stretch = mot.get("stretch", 0.0)

    def place(v):
        x, y = vv[v] - centre
        if frame:
            rn = random.Random(f"{spec.get('sseed', 0)}:mot:{v}:{frame}")
            x = x * (1 + stretch * frame) + drift[0] * frame + (rn.random() * 2 - 1) * amp
            y = y * (1 - stretch * frame) + drift[1] * frame + (rn.random() * 2 - 1) * amp
        X = (cr * x - sr * y) * scale + shift[0]
        Y = (sr * x + cr * y) * scale + shift[1]
        return (X, Y)

    jpos = {v: place(v) for v in used_v}
    jump = mot.get("jump")
    if jump and frame == jump.get("frame", 1) and used_v:
        # one junction jumps farther than the tracker's search radius: it has no counterpart in the neighbours
        # an inner junction (one of the three closest to the centre), so that the tissue's extent is unchanged
        inner_first = sorted(used_v, key=lambda v: float(np.hypot(*(vv[v] - centre))))
        vj = inner_first[jump.get("index", 0) % min(3, len(inner_first))]
        jpos[vj] = (jpos[vj][0] + jump["d"][0] * scale, jpos[vj][1] + jump["d"][1] * scale)

    # ridges
    ridges = {}
    for c in keep:
        cyc = cellv[c]
        for a, b in zip(cyc, cyc[1:] + cyc[:1]):
            ridges.setdefault((min(a, b), max(a, b)), []).append(c)
    rkeys = sorted(ridges)
    pr = _rng(spec, "pts")
    br = _rng(spec, "bulge")
    gr = _rng(spec, "gt")
    pspec = spec.get("pts", {"mode": "const", "k": 2})
    maxb = spec.get("bulge", 0.0)
    straight_frac = spec.get("straight_frac", 0.0)
    ridge_pts = {}
    ridge_gt = {}
    coords = {}
    # vertex index space: junctions keep their Voronoi index; interior points get fresh
    nxt = (max(used_v) + 1) if used_v else 0
    for rk in rkeys:
        if pspec["mode"] == "const":
            k = pspec["k"]
        elif pspec["mode"] == "mixed":
            k = pr.randint(pspec.get("kmin", 0), pspec["kmax"])
        else:  # "list": explicit per-ridge counts (used by shrinking)
            k = pspec["ks"][rkeys.index(rk) % len(pspec["ks"])]
        b = 0.0
        u = br.random()
        bb = (br.random() * 2 - 1) * maxb
        if u >= straight_frac:
            b = bb
        pts = _arc_points(jpos[rk[0]], jpos[rk[1]], k, b)
        ids = []
        for p in pts:
            ids.append(nxt)
            coords[nxt] = p
            nxt += 1
        ridge_pts[rk] = ids
        ridge_gt[rk] = round(0.5 + gr.random(), 3)
    for v in used_v:
        coords[v] = jpos[v]
    # lens cells: a small cell squeezed into an internal interface, so that two different interfaces join the
    # same two triple junctions (P, Q) and the cell has exactly two neighbours
    lens_arc2 = {}      # ridge -> (index of P in ids, index of Q in ids, ids of the second arc)
    lens_cells = []     # (key, ridge)
    if spec.get("lens"):
        lr = _rng(spec, "lens")
        border_cap = bool(spec.get("lens_border"))
        cand = [rk for rk in rkeys if len(ridge_pts[rk]) >= 5 and
                (len(ridges[rk]) == 2 or (border_cap and len(ridges[rk]) == 1))]
        lr.shuffle(cand)
        for rk in cand[:spec["lens"]]:
            ids = ridge_pts[rk]
            i, j = 1, len(ids) - 2
            P_, Q_ = np.array(coords[ids[i]]), np.array(coords[ids[j]])
            d = Q_ - P_
            L = float(np.hypot(*d))
            nvec = np.array([-d[1], d[0]]) / L
            internal = len(ridges[rk]) == 2
            # the side of the second cell; on a border ridge (a cap cell on the tissue border, closed by the
            # straight chord P-Q) it is the side away from the only cell
            cref = ridges[rk][1] if internal else ridges[rk][0]
            cen = np.mean([jpos[v] for v in cellv[cref]], axis=0)
            sgn = 1.0 if float(np.dot(cen - (P_ + Q_) / 2, nvec)) >= 0 else -1.0
            if not internal:
                sgn = -sgn
            h = 0.22 * L
            arc2 = []
            inner = ids[i + 1:j]
            for m, pid in enumerate(inner):
                t = (m + 1) / (len(inner) + 1)
                bump = h * math.sin(math.pi * t)
                base = np.array(coords[pid])
                coords[pid] = tuple(base - sgn * bump * nvec)          # first arc: towards the first cell
                if internal:
                    coords[nxt] = tuple(base + sgn * bump * nvec)      # second arc: towards the second cell
                    arc2.append(nxt)
                    nxt += 1
            lens_arc2[rk] = (i, j, arc2)
            lens_cells.append((f"L{len(lens_cells)}", rk))
    # rounding + uniqueness
    rc = {v: (round(p[0], 3), round(p[1], 3)) for v, p in coords.items()}
    if len(set(rc.values())) != len(rc):
        raise ValueError("coincident points after rounding")
    # an almost collapsed mesh edge: two different points of one interface at the same rounded position
    # (what the Surface Evolver reader's 3-decimal rounding makes of a very short edge); ids stay distinct
    if spec.get("coincident"):
        cr = _rng(spec, "coincident")
        cand = [rk for rk in rkeys if len(ridge_pts[rk]) >= 3 and rk not in lens_arc2]
        cr.shuffle(cand)
        for rk in cand[:spec["coincident"]]:
            ids = ridge_pts[rk]
            m = cr.randrange(len(ids) - 1)
            rc[ids[m + 1]] = rc[ids[m]]

    # id maps
    ir = _rng(spec, "ids" if not spec.get("ids_per_frame") else f"ids:{frame}")
    idmode = spec.get("ids", "contig0")

    def idmap(keys, mode, r):
        keys = list(keys)
        if mode == "contig0":
            return {k: i for i, k in enumerate(keys)}
        if mode == "contig1":
            return {k: i + 1 for i, k in enumerate(keys)}
        if mode == "shuffle":
            perm = list(range(1, len(keys) + 1))
            r.shuffle(perm)
            return {k: perm[i] for i, k in enumerate(keys)}
        # gaps (optionally starting at a huge number)
        out = {}
        cur = r.randint(0, 5) if mode not in ("huge", "huge64") else \
            (1_000_000 + r.randint(0, 50) if mode == "huge" else 2 ** 60 + r.randint(0, 50))
        order = keys[:]
        r.shuffle(order)
        for k in order:
            cur += r.randint(1, 4) if mode != "huge64" else r.randint(1, 4) * 1_000_003   # 64-bit keys: not exact as float64
            out[k] = cur
        return out

    vkeys = sorted(rc)
    vmap = idmap(vkeys, idmode, ir)
    cmap = idmap(list(keep) + [k for k, _ in lens_cells], idmode, ir)

    verts = {vmap[v]: rc[v] for v in vkeys}
    orient = spec.get("orient", "ccw")
    orr = _rng(spec, "orient")
    cells = {}
    pressure = {}
    prr = _rng(spec, "pressure")
    edge_set = {}
    edges = []
    ridge_of_edge = {}
    gt = {}
    for c in keep:
        cyc = cellv[c]
        out = []
        for a, b in zip(cyc, cyc[1:] + cyc[:1]):
            rk = (min(a, b), max(a, b))
            ids = ridge_pts[rk]
            if rk in lens_arc2 and len(ridges[rk]) == 2 and c == ridges[rk][1]:
                i_, j_, arc2_ = lens_arc2[rk]
                ids = ids[:i_ + 1] + arc2_ + ids[j_:]      # the second cell runs along the second arc
            out.append(a)
            out.extend(ids if a == rk[0] else ids[::-1])
        flip = (orient == "cw") or (orient == "mixed" and orr.random() < 0.5)
        if flip:
            out = out[::-1]
        # random rotation of the starting vertex
        if spec.get("rotstart", True):
            k = orr.randrange(len(out))
            out = out[k:] + out[:k]
        cells[cmap[c]] = [vmap[v] for v in out]
        pressure[cmap[c]] = round(prr.random() * 0.1, 4)
    for key, rk in lens_cells:
        i_, j_, arc2_ = lens_arc2[rk]
        ids = ridge_pts[rk]
        cyc_l = ids[i_:j_ + 1] + arc2_[::-1]
        if (orient == "cw") or (orient == "mixed" and orr.random() < 0.5):
            cyc_l = cyc_l[::-1]
        cells[cmap[key]] = [vmap[v] for v in cyc_l]
        pressure[cmap[key]] = round(prr.random() * 0.1, 4)
    # edges: one per adjacent pair, ridge order
    eid_order = []
    for rk in rkeys:
        chain = [rk[0]] + ridge_pts[rk] + [rk[1]]
        for a, b in zip(chain, chain[1:]):
            eid_order.append((a, b, rk))
        if rk in lens_arc2:
            i_, j_, arc2_ = lens_arc2[rk]
            chain2 = [ridge_pts[rk][i_]] + arc2_ + [ridge_pts[rk][j_]]
            for a, b in zip(chain2, chain2[1:]):
                eid_order.append((a, b, rk))
    emap = idmap(range(len(eid_order)), idmode if idmode != "contig0" else "contig1", ir)
    er = _rng(spec, "edir")
    for i, (a, b, rk) in enumerate(eid_order):
        if er.random() < 0.3:
            a, b = b, a
        eid = emap[i]
        edges.append((eid, vmap[a], vmap[b]))
        gt[eid] = ridge_gt[rk]
    if spec.get("store_order") == "shuffle":
        # the order in which vertices, edges and cells are stored (dict insertion order downstream)
        sr = _rng(spec, "store")
        ck = list(cells)
        sr.shuffle(ck)
        cells = {k: cells[k] for k in ck}
        pressure = {k: pressure[k] for k in ck}
        vk = list(verts)
        sr.shuffle(vk)
        verts = {k: verts[k] for k in vk}
        sr.shuffle(edges)
    meta = {"n_cells": len(cells), "n_verts": len(verts), "n_edges": len(edges),
            "n_ridges": len(rkeys),
            "junctions": sorted(vmap[v] for v in used_v)}
    return Tissue(verts, cells, edges, gt, pressure, meta)


def random_spec(rng, *, max_side=6, kmax=40, for_solver=False, frames=1, min_ridge=None):
    """Draw a spec in generic position (retries are deterministic in rng)."""
    for _ in range(200):
        nx = rng.randint(2, max_side)
        ny = rng.randint(2, max_side)
        if not for_solver and rng.random() < 0.12:
            ny = 1                      # a single row of cells: every cell is on the border
        if for_solver and nx * ny < 4:
            continue
        spec = {"kind": "voronoi", "nx": nx, "ny": ny, "sseed": rng.randrange(10 ** 9),
                "jitter": round(rng.uniform(0.05, 0.3), 3), "hex": rng.random() < 0.7}
        if min_ridge is not None:
            spec["min_ridge"] = min_ridge
        elif rng.random() < 0.15:
            spec["lattice"] = "quad"   # four-fold junctions
            if rng.random() < 0.25:
                spec["jitter"] = 0.0   # perfectly regular: exactly collinear interfaces through the junctions
        n = nx * ny
        # sub-tissue mask
        mode = rng.choice(["full", "full", "grow", "grow", "holes", "bridge"]) if not for_solver else \
            rng.choice(["full", "full", "grow", "holes"])
        if not spec_ok({**spec, "keep": None}):
            continue
        adj = cell_adjacency(spec)
        keep = set(range(n))
        if mode == "grow":
            target = rng.randint(1 if not for_solver else 3, n)
            start = rng.randrange(n)
            keep = {start}
            frontier = sorted(adj[start])
            while len(keep) < target and frontier:
                c = frontier.pop(rng.randrange(len(frontier)))
                if c in keep:
                    continue
                keep.add(c)
                frontier.extend(sorted(d for d in adj[c] if d not in keep))
        elif mode == "holes":
            cand = sorted(keep)
            rng.shuffle(cand)
            nrem = rng.randint(1, max(1, n // 5))
            for c in cand:
                if nrem == 0:
                    break
                if len(keep) > 2 and _connected_cells(keep - {c}, adj):
                    keep.discard(c)
                    nrem -= 1
        elif mode == "bridge":
            # thin path: random walk over the adjacency
            cur = rng.randrange(n)
            keep = {cur}
            for _ in range(rng.randint(2, n)):
                nb = sorted(adj[cur])
                if not nb:
                    break
                cur = rng.choice(nb)
                keep.add(cur)
        spec["keep"] = sorted(keep)
        if for_solver and len(keep) < 3:
            continue
        pm = rng.choice(["const", "mixed", "mixed"])
        km = kmax if not for_solver else min(kmax, 16)
        if pm == "const":
            spec["pts"] = {"mode": "const", "k": rng.choice([0, 0, 1, 2, 3, 5, 8, rng.randint(0, km)])}
        else:
            hi = rng.choice([2, 4, 8, 13, km])
            spec["pts"] = {"mode": "mixed", "kmin": rng.choice([0, 0, 1]), "kmax": hi}
        spec["bulge"] = rng.choice([0.0, 0.04, 0.08, 0.12])
        spec["straight_frac"] = rng.choice([0.0, 0.0, 0.3, 1.0])
        spec["scale"] = rng.choice([10.0, 25.0, 40.0, 80.0])
        spec["rot"] = round(rng.uniform(0, 2 * math.pi), 4)
        span = spec["scale"] * (max_side + 2)
        spec["shift"] = rng.choice([[0.0, 0.0], [round(span, 1), round(span, 1)],
                                    [round(-span, 1), round(-span * 0.7, 1)],
                                    [round(span * 2, 1), round(rng.uniform(-span, span), 1)]])
        if rng.random() < 0.12:
            # boundary value of the WKT reader, which stores y as 1024 - y: a tissue that straddles that line
            spec["shift"] = [round(span, 1), rng.choice([0.0, 1024.0])]
        if spec.get("lattice") == "quad" and spec.get("jitter") == 0.0 and rng.random() < 0.6:
            spec["rot"] = rng.choice([0.0, 0.0, round(math.pi / 2, 4)])   # axis-parallel: exactly mirror-symmetric coordinates
            spec["scale"] = rng.choice([10.0, 24.0, 40.0])
        if rng.random() < 0.3:
            spec["store_order"] = "shuffle"
        if not for_solver and rng.random() < 0.08:
            spec["coincident"] = rng.choice([1, 1, 2])      # mesh histories only: a zero-length edge has no direction
        if rng.random() < 0.12 and spec["pts"].get("mode") != "list":
            spec["lens"] = rng.choice([1, 1, 2])
            spec["lens_border"] = rng.random() < 0.5     # also cap cells on the border, closed by a two-point chord
            if spec["pts"]["mode"] == "const":
                spec["pts"] = {"mode": "const", "k": max(5, spec["pts"]["k"])}
            else:
                spec["pts"] = {"mode": "mixed", "kmin": max(5, spec["pts"].get("kmin", 0)), "kmax": max(7, spec["pts"]["kmax"])}
        spec["orient"] = rng.choice(["ccw", "cw", "mixed"])
        spec["ids"] = rng.choice(["contig0", "contig1", "gaps", "shuffle", "gaps", "huge", "contig0", "shuffle", "huge64"])
        if frames > 1:
            spec["motion"] = {"amp": round(rng.choice([0.0, 0.004, 0.01, 0.01, 0.06]), 4),
                              "drift": [round(rng.uniform(-0.01, 0.01), 4), round(rng.uniform(-0.01, 0.01), 4)],
                              "stretch": round(rng.choice([0.0, 0.003, 0.008]), 4)}
        try:
            if not spec_ok(spec):
                continue
            for f in range(frames):
                build_tissue(spec, f)
        except ValueError:
            continue
        return spec
    raise RuntimeError("no spec in generic position found")


def _connected_cells(keep, adj):
    keep = set(keep)
    if not keep:
        return False
    start = min(keep)
    seen = {start}
    todo = [start]
    while todo:
        c = todo.pop()
        for d in adj[c]:
            if d in keep and d not in seen:
                seen.add(d)
                todo.append(d)
    return len(seen) == len(keep)
