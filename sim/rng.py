"""One integer decides everything: labelled PRNG streams derived from VERIF_SEED.

random.Random(str) seeds through SHA-512 of the string, so streams are independent of
PYTHONHASHSEED, of the process and of each other.
"""
import random


def stream(seed, label):
    return random.Random(f"{int(seed)}:{label}")


def choice_w(rng, items):
    """items: list of (value, weight). Deterministic weighted choice."""
    tot = sum(w for _, w in items)
    x = rng.random() * tot
    acc = 0.0
    for v, w in items:
        acc += w
        if x < acc:
            return v
    return items[-1][0]
