"""API-history simulation for C10: sessions x caller threads x call histories, compared
after every call with a fresh object taken once through the reference model's registers.

Reference model (per session and frame t), updated only by successful calls:
  F[t]  arguments of the last force-matrix build for t
  S[t]  (F[t] at that moment, arguments of the last solve_stress(t))
  PB[t] S[t] at the moment of the last build_pressure_matrix(t)
  PS[t] (PB[t], arguments of the last solve_pressure(t))
"""
import copy
import gc
import hashlib
import json
import math

import numpy as np

from . import rng as R
from . import tissue as TS
from . import paths as P
from . import seams

UNKNOWN = "UNKNOWN"
TOL = 1e-9


# ------------------------------------------------------------------ generator
def gen_session(r, tier):
    if r.random() < (0.05 if tier == "quick" else 0.10):
        # the README pipeline on a sub-tissue of a shipped skeleton: parse, resample, one static frame
        from . import shipped
        inp = shipped.random_image_input(r, "quick")
        if not inp.get("window"):
            inp["window"] = [round(r.random(), 3), round(r.random(), 3), 240]
        return {"kind": "image", "inp": inp, "ne": r.randint(3, 8), "filter": r.random() < 0.5,
                "frames": 1, "times": [0.0], "cm": False, "gt": False}
    T = R.choice_w(r, [(1, 2), (2, 3), (3, 3), (4, 2)])
    spec = TS.random_spec(r, max_side=4 if tier == "quick" else 5, kmax=12, for_solver=True, frames=T)
    times = [0.0]
    for _ in range(T - 1):
        times.append(round(times[-1] + r.choice([1.0, 1.0, 0.5, 2.5, r.uniform(0.2, 3.0)]), 3))
    # one junction that jumps out of the tracker's reach in one frame (a T1-like event)
    if T > 2 and r.random() < 0.12:
        spec.setdefault("motion", {"amp": 0.0, "drift": [0.0, 0.0], "stretch": 0.0})
        spec["motion"]["jump"] = {"frame": r.randrange(1, T), "index": r.randrange(50),
                                  "d": [round(r.choice([-1, 1]) * r.uniform(0.25, 0.45), 3), round(r.uniform(-0.2, 0.2), 3)]}
        try:
            for f in range(T):
                TS.build_tissue(spec, f)
        except ValueError:
            spec["motion"].pop("jump", None)
    # frames that do not share labels, or that lose a border cell (tracking is by proximity)
    if T > 1 and r.random() < 0.12:
        spec["ids_per_frame"] = True
        if spec.get("ids") in ("contig0", "contig1"):
            spec["ids"] = "shuffle"
    if T > 1 and r.random() < 0.10 and spec.get("keep") and len(spec["keep"]) > 7:
        t_drop = r.randrange(1, T)
        for c in r.sample(spec["keep"], len(spec["keep"])):
            cand = [x for x in spec["keep"] if x != c]
            trial = dict(spec, keep=cand)
            try:
                if TS.spec_ok(trial):
                    TS.build_tissue(trial, t_drop)
                    spec["keep_by_frame"] = {str(t): cand for t in range(t_drop, T)}
                    break
            except ValueError:
                continue
    # degenerate but legal series: a repeated time stamp (frames built without time=) and / or
    # vertices that do not move at all: velocities become x/0 or 0/0, which the library answers with
    # FloatingPointError - on every thread, if its error-state handling is right
    if T > 1 and r.random() < 0.08:
        k = r.randrange(1, T)
        times[k] = times[k - 1]
        if r.random() < 0.5:
            times = [0.0] * T
    if T > 1 and r.random() < 0.08:
        spec["motion"] = {"amp": 0.0, "drift": [0.0, 0.0], "stretch": 0.0}
    sess = {"spec": spec, "frames": T, "times": times, "path": r.choice(["direct", "direct", "se"]),
            "cm": r.random() < 0.15, "gt": True}
    if r.random() < 0.25:
        sess["ne"] = r.choice([3, 4, 6, 8])     # README pipeline: resample before building the frames
        sess["rse"] = r.random() < 0.5
    return sess


def _gen_call(r, op, T, calm):
    when = r.randrange(T)
    if op == "build_force_matrix":
        return {"op": op, "when": when,
                "angle_limit": R.choice_w(r, [("default", 4), ("inf", 3), (round(r.uniform(0.5 * math.pi, math.pi), 4), 3)]),
                "fit": R.choice_w(r, [("default", 3), ("dlite", 2), ("taubinSVD", 3)]),
                "ignore_four": r.choice([None, None, True, False])}
    if op == "solve_stress":
        meth = R.choice_w(r, [(None, 6), ("lsq_linear", 3), ("lsq", 1), ("fix_stress", 0 if calm else 1)])
        st = {"op": op, "when": when, "method": meth,
              "b_matrix": R.choice_w(r, [(None, 8), ("velocity", 8), ("static", 2), ("acceleration", 2)]),
              "allow_negatives": r.choice([None, True, False]),
              "adimensional_velocity": r.choice([None, True, False]),
              "velocity_normalization": r.choice([None, None, 0.1, 2.0, 0])}
        if meth == "lsq":
            st["initial_condition"] = r.choice(["none", "ones", "gt", "rnd"])
            st["use_std"] = r.choice([None, True, False])
            st["icseed"] = r.randrange(1000)
        return st
    if op == "build_pressure_matrix":
        return {"op": op, "when": when}
    if op == "solve_pressure":
        return {"op": op, "when": when, "method": R.choice_w(r, [("lagrange_pressure", 8), (None, 0 if calm else 1)]),
                "allow_negatives": r.choice([None, True, False])}
    # get_system_velocity_per_frame
    ti = None
    if r.random() < 0.5:
        ti = sorted({r.randrange(T) for _ in range(r.randint(1, T))})
        if r.random() < 0.3:
            r.shuffle(ti)
    return {"op": "get_system_velocity_per_frame", "time_interval": ti,
            "angle_limit": R.choice_w(r, [("default", 3), (round(r.uniform(0.5 * math.pi, math.pi), 4), 1)])}


P_METHOD = [None, "lsq_linear", "lsq"]
P_B = [None, "velocity", "acceleration"]
P_FIT = ["default", "taubinSVD"]
P_ANGLE = ["default", "inf", 2.5]
P_VARIANT = ["rebuild", "no-rebuild", "other-frame-between", "other-object-first"]
P_OPTS = [(m, b, f, a) for m in P_METHOD for b in P_B for f in P_FIT for a in P_ANGLE]
PAIRS_SIZE = len(P_OPTS) * len(P_OPTS) * len(P_VARIANT)


def gen_pairs_trace(seed, tier):
    """Systematic part of the search: every ordered pair (X, Y) of option sets
    (method x b_matrix x circle fit x angle limit), solved one after the other on the same frame
    of a seeded two-frame series, with and without a rebuild, with and without another frame in
    between, each solve followed by the pressure step."""
    base, idx = divmod(seed, 1_000_000)
    g = idx // 4
    series_no = g // PAIRS_SIZE
    cell = (g * 2741 + base * 977) % PAIRS_SIZE      # 2741 is coprime to the product size: a short run spreads over all axes
    var = P_VARIANT[cell % len(P_VARIANT)]
    xi, yi = divmod(cell // len(P_VARIANT), len(P_OPTS))
    r_in = R.stream(base * 1_000_000 + series_no, "pairs-input")
    spec = TS.random_spec(r_in, max_side=3, kmax=4, for_solver=True, frames=3)
    if "acceleration" in (P_OPTS[xi][1], P_OPTS[yi][1]) or cell % 4 == 1:
        spec.setdefault("motion", {"amp": 0.0, "drift": [0.0, 0.0], "stretch": 0.0})
        spec["motion"]["jump"] = {"frame": 1, "index": r_in.randrange(50), "d": [0.35, -0.1]}
        try:
            for f in range(3):
                TS.build_tissue(spec, f)
        except ValueError:
            spec["motion"].pop("jump", None)
    sess = {"spec": spec, "frames": 3, "times": [0.0, 1.5, 2.0], "path": "direct", "cm": False, "gt": True}

    def build(o, when):
        return {"op": "build_force_matrix", "when": when, "angle_limit": o[3], "fit": o[2], "ignore_four": None,
                "sess": 0, "thread": 0}

    def solve(o, when):
        st = {"op": "solve_stress", "when": when, "method": o[0], "b_matrix": o[1], "allow_negatives": None,
              "adimensional_velocity": None, "velocity_normalization": None, "sess": 0, "thread": 0}
        if o[0] == "lsq":
            st.update({"initial_condition": "none", "use_std": None, "icseed": 0})
        return st

    def press(when):
        return [{"op": "build_pressure_matrix", "when": when, "sess": 0, "thread": 0},
                {"op": "solve_pressure", "when": when, "method": "lagrange_pressure", "allow_negatives": None,
                 "sess": 0, "thread": 0}]

    X, Y = P_OPTS[xi], P_OPTS[yi]
    if var == "other-object-first":
        # a second notebook on other data solves its LAST frame (backward differences) with X, then this one
        # solves its last frame with Y: nothing of the first object may show in the second
        spec_b = TS.random_spec(r_in, max_side=3, kmax=4, for_solver=True, frames=3)
        sess_b = {"spec": spec_b, "frames": 3, "times": [0.0, 1.0, 2.5], "path": "direct", "cm": False, "gt": True}
        def on(st, s_):
            st = dict(st)
            st["sess"] = s_
            return st
        steps = [on(build(X, 2), 1), on(solve(X, 2), 1)] + [on(x, 1) for x in press(2)]
        steps += [build(Y, 2), solve(Y, 2)] + press(2)
        return {"kind": "solver", "prop": "C10", "config": "pairs", "seed": seed, "threads": 1, "sessions": [sess, sess_b],
                "steps": steps, "grid": {"series": series_no, "first": list(X), "then": list(Y), "variant": var}}
    steps = [build(X, 0), solve(X, 0)] + press(0)
    if var == "other-frame-between":
        steps += [build(X, 1), solve(X, 1)] + press(1)
    if var != "no-rebuild":
        steps.append(build(Y, 0))
    steps += [solve(Y, 0)] + press(0)
    return {"kind": "solver", "prop": "C10", "config": "pairs", "seed": seed, "threads": 1, "sessions": [sess],
            "steps": steps, "grid": {"series": series_no, "first": list(X), "then": list(Y), "variant": var}}


def gen_trace(seed, config, tier):
    if config == "pairs":
        return gen_pairs_trace(seed, tier)
    r_in = R.stream(seed, "input")
    r_op = R.stream(seed, "ops")
    r_f = R.stream(seed, "faults")
    r_t = R.stream(seed, "threads")
    calm = config == "calm"
    if config in ("baseline", "calm"):
        S, K = 1, 1
    else:
        S = R.choice_w(r_t, [(1, 3), (2, 4), (3, 2)])
        K = R.choice_w(r_t, [(1, 1), (2, 4), (3, 3)])
    sessions = [gen_session(r_in, tier) for _ in range(S)]
    if S > 1 and r_in.random() < 0.25:
        # two notebooks opened on the same data: identical ids and coordinates in distinct objects
        sessions[1] = json.loads(json.dumps(sessions[0]))
    ncalls = r_op.randint(5, 12)
    steps = []
    built = [set() for _ in range(S)]
    solved = [set() for _ in range(S)]
    pbuilt = [set() for _ in range(S)]
    gc_kinds = [k for k in ("gc", "gc_inside") if r_f.random() < 0.5] if config == "A" else []
    # per-run bias: revisit few frames often
    for _ in range(ncalls):
        s = r_op.randrange(S)
        T = sessions[s]["frames"]
        op = R.choice_w(r_op, [("build_force_matrix", 30), ("solve_stress", 38), ("build_pressure_matrix", 10),
                               ("solve_pressure", 12), ("get_system_velocity_per_frame", 5)])
        st = _gen_call(r_op, op, T, calm)
        # keep the API's own preconditions most of the time (violating them is KeyError by contract)
        if r_op.random() < 0.93:
            if op == "solve_stress" and st["when"] not in built[s]:
                b = _gen_call(r_op, "build_force_matrix", T, calm)
                b["when"] = st["when"]
                steps.append(_place(b, s, K, r_t))
                built[s].add(st["when"])
            if op == "build_pressure_matrix" and st["when"] not in solved[s]:
                if solved[s]:
                    st["when"] = r_op.choice(sorted(solved[s]))
                else:
                    continue
            if op == "solve_pressure" and st["when"] not in pbuilt[s]:
                if pbuilt[s]:
                    st["when"] = r_op.choice(sorted(pbuilt[s]))
                elif solved[s]:
                    w = r_op.choice(sorted(solved[s]))
                    steps.append(_place({"op": "build_pressure_matrix", "when": w}, s, K, r_t))
                    pbuilt[s].add(w)
                    st["when"] = w
                else:
                    continue
        if "gc_inside" in gc_kinds and r_f.random() < 0.2:
            steps.append({"fault": "gc_inside", "at": int(10 ** r_f.uniform(0, 4))})
        steps.append(_place(st, s, K, r_t))
        if op == "build_force_matrix":
            built[s].add(st["when"])
        elif op == "solve_stress":
            solved[s].add(st["when"])
        elif op == "build_pressure_matrix":
            pbuilt[s].add(st["when"])
        elif op == "get_system_velocity_per_frame":
            built[s].update(range(T) if st["time_interval"] is None else st["time_interval"])
        if "gc" in gc_kinds and r_f.random() < 0.25:
            steps.append({"fault": "gc"})
    return {"kind": "solver", "prop": "C10", "config": config, "seed": seed, "threads": K,
            "sessions": sessions, "steps": steps}


def _place(st, s, K, r_t):
    st = dict(st)
    st["sess"] = s
    st["thread"] = r_t.randrange(K)
    return st


# ------------------------------------------------------------------ building sessions
def build_forsys(fs, sess, tag):
    frames = {}
    if sess.get("kind") == "image":
        from . import shipped
        inp = sess["inp"]
        v, e, c = P.build_skeleton(fs, shipped.image_bytes(inp), inp.get("mirror_y", False))
        v, e, c, _ = fs.virtual_edges.generate_mesh(v, e, c, ne=sess["ne"])
        frames[0] = fs.frames.Frame(0, v, e, c, time=0.0)
        if sess.get("filter"):
            frames[0].filter_edges(method="SG")
        return fs.ForSys(frames, cm=False, initial_guess={})
    for t in range(sess["frames"]):
        T = TS.build_tissue(sess["spec"], t)
        if sess.get("path") == "se":
            v, e, c = P.build_se(fs, T, f"mem:{tag}:{t}", {"wrap": 10})
        else:
            v, e, c = P.build_direct(fs, T)
        if sess.get("ne"):
            v, e, c, _ = fs.virtual_edges.generate_mesh(v, e, c, ne=sess["ne"], replace_short_edges=bool(sess.get("rse")))
        frames[t] = fs.frames.Frame(t, v, e, c, time=sess["times"][t], gt=bool(sess.get("gt", True)))
    return fs.ForSys(frames, cm=bool(sess.get("cm", False)))


def _al(x):
    return np.inf if x == "inf" else x


def apply_call(fs_obj, st, sess):
    """Issue one API call described by a step on a ForSys object. Returns the call's value."""
    op = st["op"]
    T = sess["frames"]
    if op == "build_force_matrix":
        kw = {}
        if st.get("angle_limit", "default") != "default":
            kw["angle_limit"] = _al(st["angle_limit"])
        if st.get("fit", "default") != "default":
            kw["circle_fit_method"] = st["fit"]
        if st.get("ignore_four") is not None:
            kw["metadata"] = {"ignore_four": st["ignore_four"]}
        return fs_obj.build_force_matrix(when=st["when"] % T, **kw)
    if op == "solve_stress":
        kw = {}
        for k in ("method", "b_matrix", "allow_negatives", "adimensional_velocity", "velocity_normalization", "use_std"):
            if st.get(k) is not None:
                kw[k] = st[k]
        ic = st.get("initial_condition", "none")
        if st.get("method") == "lsq" and ic != "none":
            fr = fs_obj.frames[st["when"] % T]
            n = len(fr.internal_big_edges)
            if ic == "ones":
                kw["initial_condition"] = [1.0] * n
            elif ic == "gt":
                kw["initial_condition"] = [float(be.gt) if be.gt > 0 else 1.0 for be in fr.internal_big_edges]
            else:
                import random
                rr = random.Random(st.get("icseed", 0))
                kw["initial_condition"] = [round(0.5 + rr.random(), 3) for _ in range(n)]
        return fs_obj.solve_stress(when=st["when"] % T, **kw)
    if op == "build_pressure_matrix":
        return fs_obj.build_pressure_matrix(when=st["when"] % T)
    if op == "solve_pressure":
        kw = {}
        if st.get("method") is not None:
            kw["method"] = st["method"]
        if st.get("allow_negatives") is not None:
            kw["allow_negatives"] = st["allow_negatives"]
        return fs_obj.solve_pressure(when=st["when"] % T, **kw)
    if op == "get_system_velocity_per_frame":
        kw = {}
        if st.get("angle_limit", "default") != "default":
            kw["angle_limit"] = _al(st["angle_limit"])
        ti = st.get("time_interval")
        if ti is not None:
            ti = [t % T for t in ti]
        return fs_obj.get_system_velocity_per_frame(time_interval=ti, **kw)
    raise ValueError(op)


def call_args(st):
    """The by-value arguments of a call (what the registers store)."""
    return {k: v for k, v in st.items() if k not in ("sess", "thread")}


# ------------------------------------------------------------------ reports
def _f(x):
    if x is None:
        return None
    x = float(x)
    return x


def read_tension_reports(fs_obj, t):
    fr = fs_obj.frames[t]
    out = {}
    st = fs_obj.forces.get(t) if isinstance(fs_obj.forces, dict) else "not-a-dict"
    out["store"] = None if st is None else ([_f(v) for v in st.values()] if isinstance(st, dict) else repr(type(st)))
    ff = getattr(fr, "forces", None)
    out["frame_forces"] = None if ff is None else [_f(v) for v in ff.values()]
    df = fr.get_tensions(with_border=True)
    out["table_ids"] = [int(i) for i in df["id"].tolist()]
    out["table_stress"] = [_f(v) for v in df["stress"].tolist()]
    df2 = fr.get_tensions(with_border=False)
    out["table_internal_ids"] = [int(i) for i in df2["id"].tolist()]
    return out


def read_pressure_reports(fs_obj, t):
    fr = fs_obj.frames[t]
    out = {}
    try:
        df = fr.get_pressures()
        out["table_ids"] = [int(i) for i in df["id"].tolist()]
        out["table_pressure"] = [_f(v) for v in df["pressure"].tolist()]
    except Exception as e:  # get_pressures on unsolved frames may fail the same way in both worlds
        out["table_error"] = type(e).__name__
    pp = fs_obj.pressures
    if isinstance(pp, dict):
        v = pp.get(t)
        out["store"] = None if v is None else [_f(x) for x in v]
        out["store_kind"] = "dict"
    else:
        out["store"] = [_f(x) for x in pp] if isinstance(pp, (list, tuple)) else repr(type(pp))
        out["store_kind"] = type(pp).__name__
    out["cells"] = [[int(cid), _f(c.pressure)] for cid, c in fr.cells.items()]
    return out


def _close(a, b):
    if a is None or b is None:
        return a is None and b is None
    if isinstance(a, float) and isinstance(b, float):
        if math.isnan(a) or math.isnan(b):
            return math.isnan(a) and math.isnan(b)
        if math.isinf(a) or math.isinf(b):
            return a == b
        return abs(a - b) <= TOL * max(1.0, abs(a), abs(b))
    return a == b


def diff_reports(got, exp):
    """-> list of (key, description) where the two report dicts differ."""
    out = []
    for k in exp:
        g, e = got.get(k), exp[k]
        if isinstance(e, list) and isinstance(g, list):
            if len(e) != len(g):
                out.append((k, f"length {len(g)} instead of {len(e)}"))
                continue
            bad = []
            for i, (x, y) in enumerate(zip(g, e)):
                if isinstance(x, list) and isinstance(y, list):
                    ok = len(x) == len(y) and all(_close(p, q) for p, q in zip(x, y))
                else:
                    ok = _close(x, y)
                if not ok:
                    bad.append((i, x, y))
            if bad:
                i, x, y = bad[0]
                out.append((k, f"{len(bad)} of {len(e)} entries differ, first at {i}: reported {x!r}, fresh object {y!r}"))
        elif not _close(g, e) if not isinstance(e, (list, dict)) else g != e:
            out.append((k, f"reported {g!r}, fresh object {e!r}"))
    return out


# ------------------------------------------------------------------ executor
class Sess:
    def __init__(self):
        self.obj = None
        self.spec = None
        self.F = {}
        self.S = {}
        self.PB = {}
        self.PS = {}
        self.unspec = {}   # (t, "tension"|"pressure") -> reason
        self.expect = {}   # (t, "tension"|"pressure") -> reports of the fresh object


def _fresh_sequence(sess_state, st, T):
    """The calls a fresh object must be taken through so that afterwards it is in the state the
    statement describes for the call `st`.  None when a needed register is UNKNOWN."""
    op = st["op"]
    if op in ("build_force_matrix", "get_system_velocity_per_frame"):
        return []
    t = st["when"] % T
    if op == "solve_stress":
        F = sess_state.F.get(t)
        if F == UNKNOWN:
            return None
        return [F] if F else []
    if op == "build_pressure_matrix":
        S = sess_state.S.get(t)
        if S == UNKNOWN:
            return None
        if not S:
            return []
        return ([S["F"]] if S["F"] else []) + [S["args"]]
    if op == "solve_pressure":
        PB = sess_state.PB.get(t)
        if PB == UNKNOWN:
            return None
        if not PB:
            return []
        S = PB["S"]
        seq = []
        if S:
            if S == UNKNOWN:
                return None
            seq = ([S["F"]] if S["F"] else []) + [S["args"]]
        return seq + [{"op": "build_pressure_matrix", "when": t}]
    return []


def _fresh_eval(fs, sd, si, seq, st, want):
    """Fresh object on the main thread of a pristine process: replay seq, then the call st.
    -> [prefix_raised, call_raised, value, reports]"""
    import warnings
    warnings.simplefilter("ignore")
    with seams.quiet():
        obj = build_forsys(fs, sd, f"ref{si}")
        for c in seq:
            try:
                apply_call(obj, c, sd)
            except Exception as e:
                return [type(e).__name__, None, None, None]
        raised = None
        val = None
        if st is not None:
            try:
                val = apply_call(obj, st, sd)
            except Exception as e:
                raised = type(e).__name__
        rep = None
        if want and raised is None:
            t = (st["when"] if st is not None else seq[-1]["when"]) % sd["frames"]
            rep = read_tension_reports(obj, t) if want == "tension" else read_pressure_reports(obj, t)
        if val is not None:
            try:
                val = [float(x) for x in val]
            except TypeError:
                val = None
    return [None, raised, val, rep]


def run_trace(fs, trace, flog, preempt, collect_states=False):
    import os
    import warnings
    from . import isolate
    warnings.simplefilter("ignore")
    # the reference lives in a pristine process: fork its zygote before anything of this run executes
    ref = None
    if os.environ.get("VERIF_INPROC_REF") != "1":
        ref = isolate.RefServer(lambda req: _fresh_eval(fs, trace["sessions"][req["si"]], req["si"], req["seq"], req["st"], req["want"]))
    h = hashlib.sha256()
    log = []
    violations = []
    stats = {"ops": {}, "faults_configured": {}, "faults_fired": {}, "probes": {}, "outcomes": {},
             "finalizers": {}, "unraisable": 0, "steps_ok": 0, "oracle_evals": {"C10": 0},
             "extra": {"comparisons": 0, "comparisons_skipped_unspecified": 0, "fresh_objects_built": 0,
                       "memo_hits": 0, "memo_rechecks": 0, "calls_on_non_main_thread": 0,
                       "parity_both_raise": 0, "parity_both_ok": 0}}
    states = set()

    def probe(name, n=1):
        stats["probes"][name] = stats["probes"].get(name, 0) + n

    def bump(d, k, n=1):
        stats[d][k] = stats[d].get(k, 0) + n

    def emit(*parts):
        line = " ".join(str(p) for p in parts)
        log.append(line)
        h.update(line.encode())
        h.update(b"\n")

    def viol(inv, idx, st, what, **kw):
        violations.append({"prop": "C10", "inv": inv, "step": idx, "op": st.get("op", st.get("fault")),
                           "phase": "after-call", "detail": {"inv": inv, "what": what, **kw},
                           "call": call_args(st) if "op" in st else None})

    K = max(1, trace.get("threads", 1))
    gc.collect()
    gc.disable()
    flog.reset()
    baton = seams.Baton(K)
    sessions = []
    memo = {}
    memo_n = [0]
    pend_gc_inside = None
    try:
        with seams.quiet():
            for i, sd in enumerate(trace["sessions"]):
                ss = Sess()
                ss.spec = sd
                try:
                    ss.obj = build_forsys(fs, sd, f"s{i}")
                except Exception as e:
                    emit("session", i, "build-failed", type(e).__name__)
                    ss.obj = None
                sessions.append(ss)

        def fresh_eval(si, seq, st, want):
            stats["extra"]["fresh_objects_built"] += 1
            if ref is None:
                return tuple(_fresh_eval(fs, trace["sessions"][si], si, seq, st, want))
            return tuple(ref.call({"si": si, "seq": seq, "st": st, "want": want}))

        def compare_all(idx, st):
            for si, ss in enumerate(sessions):
                if ss.obj is None:
                    continue
                T = ss.spec["frames"]
                for t in range(T):
                    for cat in ("tension", "pressure"):
                        exp = ss.expect.get((t, cat))
                        if exp is None:
                            continue
                        if (t, cat) in ss.unspec:
                            stats["extra"]["comparisons_skipped_unspecified"] += 1
                            continue
                        got = read_tension_reports(ss.obj, t) if cat == "tension" else read_pressure_reports(ss.obj, t)
                        stats["extra"]["comparisons"] += 1
                        stats["oracle_evals"]["C10"] += 1
                        d = diff_reports(got, exp)
                        if d:
                            same_frame = ("when" in st and st.get("sess", 0) % len(sessions) == si and st["when"] % T == t)
                            viol("R1" if same_frame else "R4x", idx, st,
                                 f"{cat} reports of session {si} frame {t} differ from a fresh object solved once"
                                 + ("" if same_frame else " (a call for another frame / session changed them)"),
                                 session=si, frame=t, category=cat, diffs=[list(x) for x in d[:4]])
                            ss.unspec[(t, cat)] = "reported"   # report once

        def structure_checks(idx, st, ss, si, t):
            fr = ss.obj.frames[t]
            fo = ss.obj.forces.get(t) if isinstance(ss.obj.forces, dict) else None
            ibe = fr.internal_big_edges
            if fo is None or len(fo) != len(ibe):
                viol("R3", idx, st, "number of reported tensions differs from the number of internal interfaces",
                     session=si, frame=t, reported=None if fo is None else len(fo), internal=len(ibe))
                return
            vals = list(fo.values())
            for i, be in enumerate(ibe):
                # the documented marker of an interface left out by the angle limit
                excluded = float(vals[i]) == -1.0
                if excluded:
                    probe("angle-limit-exclusion-nonempty")
                    continue
                x = float(vals[i])
                if not _close(float(be.tension), x):
                    viol("R3", idx, st, "i-th reported tension is not the tension stored on the i-th internal interface",
                         session=si, frame=t, index=i, reported=x, stored=float(be.tension))
                    break
                bad = [eid for eid in be.edges if not _close(float(fr.edges[eid].tension), x)]
                if bad:
                    viol("R3", idx, st, "mesh edges of an interface do not carry its reported tension",
                         session=si, frame=t, index=i, reported=x, edges=bad[:4])
                    break
            for be in fr.big_edges.values():
                if be.external and float(be.tension) != 0.0:
                    viol("R3", idx, st, "external interface has a non-zero tension", session=si, frame=t,
                         interface=be.big_edge_id, tension=float(be.tension))
                    break
            ids = [int(i) for i in fr.get_tensions(with_border=False)["id"].tolist()]
            if ids != [be.big_edge_id for be in ibe]:
                viol("R3", idx, st, "tension table does not list exactly the internal interfaces in order",
                     session=si, frame=t)
            if getattr(fr, "forces", None) is not fo and list(getattr(fr, "forces", {}).values()) != vals:
                viol("R4", idx, st, "Frame.forces differs from the solver object's store for this frame", session=si, frame=t)

        with seams.Unraisable() as unr:
            for idx, st in enumerate(trace["steps"]):
                if "fault" in st:
                    f = st["fault"]
                    bump("faults_configured", f)
                    if f == "gc":
                        n = gc.collect()
                        emit(idx, "gc", n)
                        if n:
                            bump("faults_fired", "gc:collected-something")
                        compare_all(idx, st)
                    elif f == "gc_inside":
                        pend_gc_inside = st["at"]
                    continue
                op = st["op"]
                bump("ops", op)
                si = st.get("sess", 0) % len(sessions)
                ss = sessions[si]
                if ss.obj is None:
                    emit(idx, op, "noop")
                    continue
                sd = ss.spec
                T = sd["frames"]
                th = st.get("thread", 0) % K
                if th:
                    stats["extra"]["calls_on_non_main_thread"] += 1
                # stores of other frames before the call (R4)
                before_f = {k: (None if v is None else list(v.values())) for k, v in ss.obj.forces.items()} \
                    if isinstance(ss.obj.forces, dict) else None
                before_p = {k: (None if v is None else list(v)) for k, v in ss.obj.pressures.items()} \
                    if isinstance(ss.obj.pressures, dict) else None
                at = pend_gc_inside
                pend_gc_inside = None
                raised = None
                val = None
                flog.phase = "call"
                try:
                    with seams.quiet(), preempt.during(at):
                        val = baton.call(th, lambda: apply_call(ss.obj, st, sd))
                except Exception as e:
                    raised = type(e).__name__
                flog.phase = "idle"
                if at is not None and preempt.fired:
                    bump("faults_fired", "gc_inside:ran-inside-call")
                if th:
                    bump("faults_fired", "thread:call-on-non-main-thread")
                outcome = "ok" if raised is None else "exc:" + raised
                bump("outcomes", op + ":" + outcome)
                if raised is None:
                    stats["steps_ok"] += 1

                # reference: fresh object through the registers, then the same call
                seq = _fresh_sequence(ss, st, T)
                want = {"solve_stress": "tension", "solve_pressure": "pressure"}.get(op)
                t = st["when"] % T if "when" in st else None
                if seq is None:
                    probe("parity-skipped:unknown-register")
                    fr_pref = fr_raised = fr_val = fr_rep = None
                    parity_known = False
                else:
                    key = (si, json.dumps(seq, sort_keys=True), json.dumps(call_args(st), sort_keys=True))
                    if key in memo:
                        memo_n[0] += 1
                        stats["extra"]["memo_hits"] += 1
                        fr_pref, fr_raised, fr_val, fr_rep = memo[key]
                        if memo_n[0] % 4 == 1:
                            again = fresh_eval(si, seq, st, want)
                            stats["extra"]["memo_rechecks"] += 1
                            if json.dumps(again, sort_keys=True, default=repr) != json.dumps(memo[key], sort_keys=True, default=repr):
                                raise RuntimeError("fresh-object path is not deterministic: memoised and recomputed reference differ")
                    else:
                        fr_pref, fr_raised, fr_val, fr_rep = memo[key] = fresh_eval(si, seq, st, want)
                    parity_known = fr_pref is None
                    if fr_pref is not None:
                        probe("reference-prefix-raised")
                if parity_known:
                    stats["oracle_evals"]["C10"] += 1
                    if (raised is None) != (fr_raised is None):
                        viol("R2", idx, st, "the call " + ("raised" if raised else "succeeded") + " on the object with a history but "
                             + ("raised" if fr_raised else "succeeded") + " on a fresh object taken through the same last arguments",
                             session=si, frame=t, with_history=raised, fresh=fr_raised, thread=th)
                    elif raised is None:
                        stats["extra"]["parity_both_ok"] += 1
                    else:
                        stats["extra"]["parity_both_raise"] += 1
                        probe("parity:both-raise:" + op)

                # registers and expectations
                cat = want
                if op == "build_force_matrix":
                    if raised is None:
                        ss.F[t] = call_args(st)
                elif op == "get_system_velocity_per_frame":
                    ti = st.get("time_interval")
                    frames_t = list(range(T)) if ti is None else [x % T for x in ti]
                    al = st.get("angle_limit", "default")
                    for x in frames_t:
                        if raised is None:
                            ss.F[x] = {"op": "build_force_matrix", "when": x, "angle_limit": "inf" if al == "default" else al,
                                       "fit": "default", "ignore_four": None}
                        else:
                            ss.F[x] = UNKNOWN
                    if raised is None and parity_known and fr_raised is None:
                        stats["oracle_evals"]["C10"] += 1
                        a = [float(x) for x in val]
                        b = [float(x) for x in fr_val]
                        if len(a) != len(b) or not all(_close(x, y) for x, y in zip(a, b)):
                            viol("R5", idx, st, "get_system_velocity_per_frame returned something else than on a fresh object",
                                 session=si, with_history=a[:6], fresh=b[:6])
                        probe("velocity-call-compared")
                elif op == "solve_stress":
                    if raised is None:
                        ss.S[t] = {"F": ss.F.get(t), "args": call_args(st)}
                        if ss.F.get(t) == UNKNOWN:
                            ss.S[t] = UNKNOWN
                        ss.unspec.pop((t, "tension"), None)
                        if parity_known and fr_raised is None and fr_rep is not None and ss.S[t] != UNKNOWN:
                            ss.expect[(t, "tension")] = fr_rep
                        else:
                            ss.unspec[(t, "tension")] = "no-reference"
                        structure_checks(idx, st, ss, si, t)
                        probe("solve:" + str(st.get("method")) + ":" + str(st.get("b_matrix")))
                    else:
                        # a failed solve may have written part of its output: unspecified until the next success
                        ss.unspec[(t, "tension")] = "failed-solve"
                elif op == "build_pressure_matrix":
                    if raised is None:
                        S = ss.S.get(t)
                        ss.PB[t] = UNKNOWN if ((t, "tension") in ss.unspec or S == UNKNOWN) else {"S": S}
                elif op == "solve_pressure":
                    if raised is None:
                        ss.PS[t] = {"PB": ss.PB.get(t), "args": call_args(st)}
                        ss.unspec.pop((t, "pressure"), None)
                        if parity_known and fr_raised is None and fr_rep is not None and ss.PB.get(t) != UNKNOWN:
                            ss.expect[(t, "pressure")] = fr_rep
                        else:
                            ss.unspec[(t, "pressure")] = "no-reference"
                        # R3/R4 for pressures
                        pp = ss.obj.pressures
                        if not isinstance(pp, dict) or pp.get(t) is None:
                            viol("R4", idx, st, "the solver object's pressure store does not hold frame t's pressures under key t",
                                 session=si, frame=t, store_type=type(pp).__name__,
                                 keys=sorted(pp)[:6] if isinstance(pp, dict) else None)
                        else:
                            cells_t = ss.obj.frames[t].cells
                            store = pp[t]
                            if isinstance(store, dict):
                                own = {cid: store.get(cid) for cid in cells_t}
                            elif len(store) == len(cells_t):
                                own = {cid: store[i] for i, cid in enumerate(cells_t)}   # one entry per cell, in cell order
                            else:
                                own = None
                                probe("pressure-store-layout-unknown")
                            for cid, c in cells_t.items():
                                if own is not None and (own[cid] is None or not _close(float(c.pressure), float(own[cid]))):
                                    viol("R3", idx, st, "a cell does not carry its own pressure", session=si, frame=t, cell=cid)
                                    break
                        probe("solve_pressure:" + str(st.get("method")))
                    else:
                        ss.unspec[(t, "pressure")] = "failed-solve"
                # R4: stores of other frames untouched
                if isinstance(ss.obj.forces, dict) and before_f is not None:
                    for k, v in ss.obj.forces.items():
                        if k == t and op == "solve_stress":
                            continue
                        now = None if v is None else list(v.values())
                        if k in before_f and now != before_f[k]:
                            viol("R4", idx, st, "tension store entry of another frame changed", session=si, frame=k)
                elif not isinstance(ss.obj.forces, dict):
                    viol("R4", idx, st, "tension store is no longer keyed by frame", session=si)
                if isinstance(ss.obj.pressures, dict) and before_p is not None:
                    for k, v in ss.obj.pressures.items():
                        if k == t and op == "solve_pressure":
                            continue
                        now = None if v is None else list(v)
                        if k in before_p and now != before_p[k]:
                            viol("R4", idx, st, "pressure store entry of another frame changed", session=si, frame=k)
                emit(idx, op, si, th, t, outcome, "ref:" + str(fr_raised if seq is not None else "?"))
                if raised is None and op == "solve_stress":
                    for x in list(ss.obj.forces[t].values())[:200]:
                        h.update(float(x).hex().encode())
                compare_all(idx, st)
                if collect_states:
                    states.add((op, str(st.get("method")), str(st.get("b_matrix")), st.get("fit"), bool(th),
                                len(ss.S), len(ss.PS), outcome == "ok", len(ss.unspec) > 0))
            stats["unraisable"] = len(unr.items)
    finally:
        baton.close()
        if ref is not None:
            ref.close()
        stats["finalizers"] = dict(flog.counts)
        sessions.clear()
        memo.clear()
        gc.collect()
        gc.enable()
    return {"digest": h.hexdigest(), "violations": violations, "stats": stats, "log": log,
            "states": sorted(map(repr, states)) if collect_states else []}


# ------------------------------------------------------------------ simplification
def simplifications(trace):
    # fewer threads / sessions
    if trace.get("threads", 1) > 1:
        t = copy.deepcopy(trace)
        t["threads"] = 1
        yield t
    used = sorted({s.get("sess", 0) % len(trace["sessions"]) for s in trace["steps"] if "op" in s})
    if len(used) < len(trace["sessions"]) and used:
        t = copy.deepcopy(trace)
        t["sessions"] = [trace["sessions"][i] for i in used]
        for s in t["steps"]:
            if "op" in s:
                s["sess"] = used.index(s.get("sess", 0) % len(trace["sessions"]))
        yield t
    for i, s in enumerate(trace["steps"]):
        if "op" not in s:
            continue
        if s.get("thread"):
            t = copy.deepcopy(trace)
            t["steps"][i]["thread"] = 0
            yield t
        for k, v in (("method", None), ("b_matrix", None), ("allow_negatives", None), ("adimensional_velocity", None),
                     ("velocity_normalization", None), ("fit", "default"), ("angle_limit", "default"),
                     ("ignore_four", None), ("use_std", None)):
            if k in s and s[k] != v:
                t = copy.deepcopy(trace)
                t["steps"][i][k] = v
                yield t
    for k, sd in enumerate(trace["sessions"]):
        if sd.get("kind") == "image":
            continue
        if sd["frames"] > 1:
            mx = max([s["when"] % sd["frames"] for s in trace["steps"] if "when" in s and s.get("sess", 0) % len(trace["sessions"]) == k] + [0])
            if mx + 1 < sd["frames"] and not any(s.get("op") == "get_system_velocity_per_frame" for s in trace["steps"]):
                t = copy.deepcopy(trace)
                t["sessions"][k]["frames"] = max(mx + 1, 2) if mx + 1 >= 2 else mx + 1
                t["sessions"][k]["times"] = sd["times"][:t["sessions"][k]["frames"]]
                if t["sessions"][k]["frames"] != sd["frames"]:
                    yield t
        for key, val in (("path", "direct"), ("cm", False)):
            if sd.get(key) != val:
                t = copy.deepcopy(trace)
                t["sessions"][k][key] = val
                yield t
        sp = sd["spec"]
        pm = sp.get("pts", {})
        for kk in (0, 1, 2):
            if pm.get("mode") != "const" or pm.get("k", 0) > kk:
                t = copy.deepcopy(trace)
                t["sessions"][k]["spec"]["pts"] = {"mode": "const", "k": kk}
                if _builds(t["sessions"][k]):
                    yield t
        keep = sp.get("keep") or list(range(sp["nx"] * sp["ny"]))
        if len(keep) > 4:
            for c in list(keep):
                t = copy.deepcopy(trace)
                t["sessions"][k]["spec"]["keep"] = [x for x in keep if x != c]
                if _builds(t["sessions"][k]):
                    yield t


def _builds(sd):
    try:
        if not TS.spec_ok(sd["spec"]):
            return False
        for f in range(sd["frames"]):
            TS.build_tissue(sd["spec"], f)
        return True
    except Exception:
        return False
