"""Batch driver: seeded search over traces, evidence, minimisation, replay."""
import concurrent.futures as cf
import copy
import faulthandler
import hashlib
import json
import multiprocessing as mp
import os
import sys
import time
import traceback

from . import engine
from . import findings

HERE = os.path.dirname(os.path.dirname(os.path.abspath(__file__)))
TASK_CAP_S = 240


def configs_for(prop):
    return ("baseline", "A", "AB", "grid") if prop in ("C09", "C11") else ("baseline", "calm", "A", "pairs")


def _worker_init():
    engine.get()


def _task(args):
    prop, seed, config, tier, want_trace = args
    faulthandler.dump_traceback_later(TASK_CAP_S, exit=True)
    try:
        t0 = time.perf_counter()
        trace = engine.gen(prop, seed, config, tier)
        res = engine.run_isolated(trace, collect_states=True, cap_s=TASK_CAP_S)
        dt = time.perf_counter() - t0
        vs = [v for v in res["violations"] if v["prop"] == prop]
        out = {"seed": seed, "config": config, "digest": res["digest"], "violations": vs,
               "stats": res["stats"], "states": res["states"], "wall": dt,
               "n_steps": len(trace["steps"]),
               "trace_digest": hashlib.sha256(json.dumps(trace, sort_keys=True).encode()).hexdigest()[:16],
               "grams": _grams(trace), "grid": trace.get("grid")}
        if want_trace or vs:
            out["trace"] = trace
        return out
    except BaseException as e:  # harness error, never a verdict
        return {"seed": seed, "config": config, "harness_error": "".join(traceback.format_exception(e))[-3000:]}
    finally:
        faulthandler.cancel_dump_traceback_later()


def _grams(trace):
    """(operation kind, fault kind, thread != main?) 3-grams of the step list."""
    toks = []
    for st in trace["steps"]:
        if "fault" in st:
            toks.append("F:" + st["fault"] + (":" + st.get("kind", "") if st["fault"] == "retain" else ""))
        else:
            t = st.get("thread", 0)
            toks.append("O:" + st["op"] + ("@t" if t else ""))
    return sorted({"|".join(toks[i:i + 3]) for i in range(max(0, len(toks) - 2))})


def run_trace_fresh(trace, timeout=TASK_CAP_S):
    """Execute one trace in a fresh interpreter (used by ddmin and replay)."""
    import subprocess
    p = subprocess.run([sys.executable, os.path.join(HERE, "check"), "--exec-trace", "-"],
                       input=json.dumps(trace).encode(), stdout=subprocess.PIPE, stderr=subprocess.PIPE,
                       timeout=timeout, cwd=HERE)
    if p.returncode != 0:
        raise RuntimeError("trace execution failed: " + p.stderr.decode()[-2000:])
    return json.loads(p.stdout.decode().splitlines()[-1])


class Aggregate:
    def __init__(self, prop):
        self.prop = prop
        self.runs = 0
        self.by_config = {}
        self.steps = 0
        self.steps_ok = 0
        self.ops = {}
        self.outcomes = {}
        self.f_conf = {}
        self.f_fired = {}
        self.probes = {}
        self.finalizers = {}
        self.unraisable = 0
        self.oracle_evals = 0
        self.states = set()
        self.grams = set()
        self.trace_digests = set()
        self.nontrivial = set()
        self.samples = []
        self.wall_sum = 0.0
        self.first_seed = None
        self.last_seed = None
        self.extra = {}
        self.grid = set()

    @staticmethod
    def _add(d, src):
        for k, v in src.items():
            if isinstance(v, (int, float)):
                d[k] = d.get(k, 0) + v

    def add(self, r):
        s = r["stats"]
        self.runs += 1
        self.by_config[r["config"]] = self.by_config.get(r["config"], 0) + 1
        self.steps += r["n_steps"]
        self.steps_ok += s.get("steps_ok", 0)
        self._add(self.ops, s.get("ops", {}))
        self._add(self.outcomes, s.get("outcomes", {}))
        self._add(self.f_conf, s.get("faults_configured", {}))
        self._add(self.f_fired, s.get("faults_fired", {}))
        self._add(self.probes, s.get("probes", {}))
        self._add(self.finalizers, s.get("finalizers", {}))
        self._add(self.extra, s.get("extra", {}))
        self.unraisable += s.get("unraisable", 0)
        ev = s.get("oracle_evals", {}).get(self.prop, 0)
        self.oracle_evals += ev
        self.states.update(r.get("states", []))
        self.grams.update(r.get("grams", []))
        self.trace_digests.add(r["trace_digest"])
        if s.get("steps_ok", 0) >= 2 and ev >= 1:
            self.nontrivial.add(r["trace_digest"])
        self.wall_sum += r["wall"]
        self.first_seed = r["seed"] if self.first_seed is None else min(self.first_seed, r["seed"])
        self.last_seed = r["seed"] if self.last_seed is None else max(self.last_seed, r["seed"])
        if r.get("grid"):
            self.grid.add(json.dumps(r["grid"], sort_keys=True))
        if "trace" in r and len(self.samples) < 4 and not r["violations"]:
            self.samples.append({"seed": r["seed"], "config": r["config"], "trace": _shorten_trace(r["trace"])})


def _shorten_trace(tr):
    t = copy.deepcopy(tr)
    for inp in t.get("inputs", []):
        if "sites" in inp and len(inp["sites"]) > 6:
            inp["sites"] = inp["sites"][:6] + ["... %d more" % (len(inp["sites"]) - 6)]
        sp = inp.get("spec")
        if sp and sp.get("keep") and len(sp["keep"]) > 12:
            sp["keep"] = sp["keep"][:12] + ["..."]
    for s in t.get("sessions", []):
        sp = s.get("spec") if isinstance(s, dict) else None
        if sp and sp.get("keep") and len(sp["keep"]) > 12:
            sp["keep"] = sp["keep"][:12] + ["..."]
    return t


def batch(prop, tier, base_seed, n_runs=None, budget_s=None, workers=None, out=sys.stdout):
    """-> (results-aggregate, list of violating run records, harness errors)"""
    workers = workers or min(16, os.cpu_count() or 4)
    cfgs = configs_for(prop)
    agg = Aggregate(prop)
    bad = []
    herr = []
    kf = findings.load()
    n_new = 0
    t0 = time.time()
    ctx = mp.get_context("fork")
    engine.get()  # import once in the parent: forked workers share it
    nxt = 0
    inflight = {}
    stop = False
    with cf.ProcessPoolExecutor(max_workers=workers, mp_context=ctx, initializer=_worker_init) as ex:
        try:
            while True:
                while not stop and len(inflight) < workers * 2 and (n_runs is None or nxt < n_runs):
                    if budget_s is not None and time.time() - t0 > budget_s:
                        stop = True
                        break
                    seed = base_seed * 1_000_000 + nxt
                    cfg = cfgs[nxt % len(cfgs)]
                    fut = ex.submit(_task, (prop, seed, cfg, tier, nxt < 4))
                    inflight[fut] = seed
                    nxt += 1
                if not inflight:
                    break
                done, _ = cf.wait(list(inflight), return_when=cf.FIRST_COMPLETED, timeout=TASK_CAP_S + 30)
                if not done:
                    herr.append("no task finished within the per-task cap")
                    break
                for fut in done:
                    seed = inflight.pop(fut)
                    r = fut.result()
                    if "harness_error" in r:
                        herr.append(f"seed {seed}: {r['harness_error']}")
                        continue
                    agg.add(r)
                    if r["violations"]:
                        bad.append(r)
                        if any(findings.match_open(findings.signature(v), kf) is None for v in r["violations"]):
                            n_new += 1
                # stop early only for violations that are not listed known findings
                if n_new >= 8 or len(herr) >= 5:
                    stop = True
                    n_runs = nxt
        except cf.process.BrokenProcessPool as e:
            herr.append("worker process died (wall cap or crash): " + str(e))
    agg.wall = time.time() - t0
    bad.sort(key=lambda r: r["seed"])
    return agg, bad, herr


# ------------------------------------------------------------------ minimisation
def signature(v):
    return findings.signature(v)


def _exec_iso(trace):
    try:
        res = engine.run_isolated(trace, cap_s=TASK_CAP_S)
        return {"digest": res["digest"], "violations": res["violations"]}
    except BaseException as e:  # noqa
        return {"error": repr(e)}


def _fails_same(trace, prop, sig):
    """In a genuinely fresh interpreter."""
    try:
        res = run_trace_fresh(trace)
    except Exception:
        return None
    for v in res["violations"]:
        if v["prop"] == prop and signature(v) == sig:
            return res
    return None


class _Tester:
    """Tests candidate traces in parallel, each in an isolated fork of a pristine worker."""

    def __init__(self, prop, sig, budget):
        self.prop, self.sig = prop, sig
        self.t_end = time.time() + budget["seconds"]
        self.left = budget["execs"]
        self.calls = 0
        engine.get()
        self.ex = cf.ProcessPoolExecutor(max_workers=min(16, os.cpu_count() or 4), mp_context=mp.get_context("fork"),
                                         initializer=_worker_init)

    def close(self):
        self.ex.shutdown(wait=False, cancel_futures=True)

    def _hit(self, res):
        return "error" not in res and any(v["prop"] == self.prop and signature(v) == self.sig for v in res["violations"])

    def first_failing(self, cands):
        """-> index of the first candidate (in list order) that still fails the same way, or None."""
        cands = list(cands)
        if not cands or self.left <= 0 or time.time() > self.t_end:
            return None
        cands = cands[:self.left]
        self.left -= len(cands)
        self.calls += len(cands)
        futs = [self.ex.submit(_exec_iso, c) for c in cands]
        for i, f in enumerate(futs):
            try:
                if self._hit(f.result(timeout=TASK_CAP_S + 30)):
                    for g in futs[i + 1:]:
                        g.cancel()
                    return i
            except Exception:
                continue
        return None


def ddmin_steps(trace, prop, sig, budget):
    """Delta debugging over the step list, then operand / input simplification."""
    T = _Tester(prop, sig, budget)
    try:
        cur = copy.deepcopy(trace)

        def without(idxs):
            t = copy.deepcopy(cur)
            t["steps"] = [s for i, s in enumerate(cur["steps"]) if i not in idxs]
            return t

        fi = [i for i, s in enumerate(cur["steps"]) if "fault" in s]
        if fi and T.first_failing([without(set(fi))]) == 0:
            cur = without(set(fi))
        n = 2
        while len(cur["steps"]) >= 2 and T.left > 0 and time.time() < T.t_end:
            steps = cur["steps"]
            chunk = max(1, len(steps) // n)
            cands = []
            for start in range(0, len(steps), chunk):
                t = without(set(range(start, min(len(steps), start + chunk))))
                if t["steps"]:
                    cands.append(t)
            k = T.first_failing(cands)
            if k is not None:
                cur = cands[k]
                n = max(n - 1, 2)
            else:
                if chunk == 1:
                    break
                n = min(len(steps), n * 2)
        if cur["kind"] == "mesh":
            from . import meshworld as W
        else:
            from . import solverworld as W
        for _ in range(6):
            cands = list(W.simplifications(cur))[:48]
            k = T.first_failing(cands)
            if k is None:
                break
            cur = cands[k]
        return cur, T.calls
    finally:
        T.close()


def report_violation(prop, rec, out=sys.stdout, minimise=True):
    """Minimise, write the replay file, verify that the replay reproduces, print the line."""
    v0 = rec["violations"][0]
    sig = signature(v0)
    trace = rec["trace"]
    execs = 0
    if minimise:
        try:
            trace, execs = ddmin_steps(trace, prop, sig, {"execs": 600, "seconds": 120})
        except Exception as e:
            print(f"HARNESS-NOTE minimisation failed ({e!r}); reporting the unminimised trace", file=out)
            trace = rec["trace"]
    res = _fails_same(trace, prop, sig)
    if res is None:
        # minimised trace does not reproduce in a fresh interpreter: fall back to the original
        res = _fails_same(rec["trace"], prop, sig)
        trace = rec["trace"]
        if res is None:
            return None
    res2 = _fails_same(trace, prop, sig)
    if res2 is None or res2["digest"] != res["digest"]:
        return None
    vs = [v for v in res["violations"] if v["prop"] == prop and signature(v) == sig]
    os.makedirs(os.path.join(HERE, "replays"), exist_ok=True)
    tag = hashlib.sha256(repr(sig).encode()).hexdigest()[:6]
    path = os.path.join(HERE, "replays", f"{prop}-{rec['seed']}-{tag}.json")
    with open(path, "w") as f:
        json.dump({"property": prop, "seed": rec["seed"], "config": rec["config"], "signature": list(sig),
                   "digest": res["digest"], "violations": vs[:4], "minimise_execs": execs,
                   "original_steps": len(rec["trace"]["steps"]), "steps": len(trace["steps"]),
                   "trace": trace}, f, indent=1)
    return path, sig, vs[0]
