"""C09 oracle: consistency of a (vertices, edges, cells) triple, computed from the three
dictionaries only.  Returns a list of violation records; empty list = consistent.

I1  k in v.ownEdges  <=>  k in edges and v is an end of edges[k]; listed once
I2  k in v.ownCells  <=>  k in cells and v occurs in cells[k].vertices; listed once
I3  dict key == stored object's id; every vertex reachable from an edge or a cell *is*
    vertices[its id]
I4  no cell cycle repeats a vertex
I5  consecutive vertices of every cell cycle are the two ends of some mesh edge
"""

MAXREP = 6


def snapshot(vertices, edges, cells):
    """Plain-data copy (ids and coordinates only) taken before a call."""
    return {
        "v": {vid: (v.x, v.y) for vid, v in vertices.items()},
        "ve": {vid: list(v.ownEdges) for vid, v in vertices.items()},
        "vc": {vid: list(v.ownCells) for vid, v in vertices.items()},
        "e": {eid: (e.v1.id, e.v2.id) for eid, e in edges.items()},
        "c": {cid: [v.id for v in c.vertices] for cid, c in cells.items()},
    }


def check_mesh(vertices, edges, cells):
    out = []

    def add(inv, what, **ids):
        if sum(1 for o in out if o["inv"] == inv) < MAXREP:
            out.append({"inv": inv, "what": what, **ids})

    # I3 keys and identity
    for vid, v in vertices.items():
        if v.id != vid:
            add("I3", "vertex stored under a key that is not its id", vertex=vid, stored_id=v.id)
    ends = {}
    for eid, e in edges.items():
        if e.id != eid:
            add("I3", "edge stored under a key that is not its id", edge=eid, stored_id=e.id)
        for w in (e.v1, e.v2):
            if vertices.get(w.id) is not w:
                add("I3", "edge end is not the vertex object stored under its id", edge=eid, vertex=w.id,
                    missing=w.id not in vertices)
        va = getattr(e, "verticesArray", None)
        ends[eid] = (e.v1, e.v2)
    occ = {}
    for cid, c in cells.items():
        if c.id != cid:
            add("I3", "cell stored under a key that is not its id", cell=cid, stored_id=c.id)
        seen = set()
        for w in c.vertices:
            if vertices.get(w.id) is not w:
                add("I3", "cell vertex is not the vertex object stored under its id", cell=cid, vertex=w.id,
                    missing=w.id not in vertices)
            if id(w) in seen:
                add("I4", "cell cycle repeats a vertex", cell=cid, vertex=w.id)
            seen.add(id(w))
            occ.setdefault(id(w), set()).add(cid)
    # I1
    incident = {}
    for eid, (a, b) in ends.items():
        incident.setdefault(id(a), set()).add(eid)
        incident.setdefault(id(b), set()).add(eid)
    for vid, v in vertices.items():
        inc = incident.get(id(v), set())
        lst = v.ownEdges
        if len(set(lst)) != len(lst):
            add("I1", "vertex lists an edge id twice", vertex=vid, ids=sorted(k for k in set(lst) if lst.count(k) > 1))
        extra = [k for k in lst if k not in inc]
        miss = [k for k in inc if k not in lst]
        if extra:
            add("I1", "vertex lists an edge that does not end at it", vertex=vid, ids=sorted(set(extra)),
                exists=[k in edges for k in sorted(set(extra))])
        if miss:
            add("I1", "vertex does not list an edge that ends at it", vertex=vid, ids=sorted(miss))
    # I2
    for vid, v in vertices.items():
        inc = occ.get(id(v), set())
        lst = v.ownCells
        if len(set(lst)) != len(lst):
            add("I2", "vertex lists a cell id twice", vertex=vid, ids=sorted(k for k in set(lst) if lst.count(k) > 1))
        extra = [k for k in lst if k not in inc]
        miss = [k for k in inc if k not in lst]
        if extra:
            add("I2", "vertex lists a cell whose cycle does not contain it", vertex=vid, ids=sorted(set(extra)),
                exists=[k in cells for k in sorted(set(extra))])
        if miss:
            add("I2", "vertex does not list a cell whose cycle contains it", vertex=vid, ids=sorted(miss))
    # I5
    pairs = set()
    for eid, (a, b) in ends.items():
        pairs.add((id(a), id(b)))
        pairs.add((id(b), id(a)))
    for cid, c in cells.items():
        cyc = c.vertices
        n = len(cyc)
        if n == 0:
            continue
        for i in range(n):
            a, b = cyc[i], cyc[(i + 1) % n]
            if n > 1 and (id(a), id(b)) not in pairs:
                add("I5", "consecutive cycle vertices are not joined by a mesh edge", cell=cid,
                    pair=[a.id, b.id])
    return out


def check_mesh_snapshot_inconsistent(snap):
    """True when a plain-data snapshot violates I1/I2/I4/I5 (used as a precondition)."""
    inc = {}
    for eid, (a, b) in snap["e"].items():
        inc.setdefault(a, set()).add(eid)
        inc.setdefault(b, set()).add(eid)
        if a not in snap["v"] or b not in snap["v"]:
            return True
    for vid in snap["v"]:
        if sorted(snap["ve"][vid]) != sorted(inc.get(vid, ())):
            return True
    occ = {}
    pairs = {frozenset(p) for p in snap["e"].values()}
    for cid, cyc in snap["c"].items():
        if len(set(cyc)) != len(cyc):
            return True
        n = len(cyc)
        for i, v in enumerate(cyc):
            if v not in snap["v"]:
                return True
            occ.setdefault(v, set()).add(cid)
            if n > 1 and frozenset((v, cyc[(i + 1) % n])) not in pairs:
                return True
    for vid in snap["v"]:
        if sorted(snap["vc"][vid]) != sorted(occ.get(vid, ())):
            return True
    return False


def mesh_digest_lines(vertices, edges, cells):
    """Canonical text of a mesh for the run digest (hex floats, sorted ids)."""
    L = []
    for vid in sorted(vertices):
        v = vertices[vid]
        L.append(f"v {vid} {float(v.x).hex()} {float(v.y).hex()} E{sorted(v.ownEdges)} C{sorted(v.ownCells)}")
    for eid in sorted(edges):
        e = edges[eid]
        L.append(f"e {eid} {e.v1.id} {e.v2.id}")
    for cid in sorted(cells):
        L.append(f"c {cid} {[v.id for v in cells[cid].vertices]}")
    return L
