"""Violation signatures and the committed known-findings file (never written at run time)."""
import json
import os

HERE = os.path.dirname(os.path.dirname(os.path.abspath(__file__)))
PATH = os.path.join(HERE, "known_findings.json")


def cause_class(v):
    """Cause classes are predicates over facts the harness controls."""
    d = v.get("detail", {})
    if v.get("cause"):
        return v["cause"]
    ret = v.get("retained_live") or []
    ids = d.get("ids")
    if ids is not None and ret:
        kinds = {"I1": "edge", "I2": "cell"}
        k = kinds.get(v.get("inv"))
        rid = {i for (kk, i) in map(tuple, ret) if kk == k}
        if rid and set(ids) <= rid:
            return "retained-" + (k or "object")
    if v.get("cascade"):
        return "merge-cascade"
    return "plain"


def signature(v):
    return (v["prop"], v["inv"], v["op"], cause_class(v))


def load():
    if not os.path.exists(PATH):
        return {"open": [], "fixed": []}
    with open(PATH) as f:
        return json.load(f)


def match_open(sig, kf=None):
    kf = kf or load()
    for ent in kf.get("open", []):
        es = ent["signature"]
        if all(e == "*" or e == s for e, s in zip(es, sig)) and len(es) == len(sig):
            return ent
    return None
