import argparse
import json
import os
import sys
import time

HERE = os.path.dirname(os.path.dirname(os.path.abspath(__file__)))

QUICK_RUNS = {"C09": 1024, "C11": 1024, "C10": 320}
THOROUGH_BUDGET_S = 1800

LEVEL_RULE = {
    "C09": "one case = one seeded trace (input spec + parse / generate_mesh / Frame / reduce_amount steps + "
           "scheduled faults: gc between calls, gc at a seeded line event inside a forsys call, retained and late-released "
           "references to edges/cells; every fourth seed is a cell of the systematic ne x replace_short_edges x reference-holder grid) "
           "executed against the real forsys code; I1-I5 are evaluated on every live mesh after "
           "every step, after every release and at quiescence.  distinct = distinct trace digests (SHA-256 of the trace); "
           "non-trivial = executed >= 2 successful operations and had the C09 oracle evaluated at least once on a mesh.",
    "C11": "one case = one seeded trace as for C09 with ne in 1..12 and repeated identical generate_mesh calls; every "
           "successful generate_mesh step is refined against the reference analysis of the pre-call snapshot (G1-G4), "
           "repeated calls are compared (G5), crashes on the merge-free sub-domain counted (G6).  distinct = distinct trace "
           "digests; non-trivial = >= 2 successful operations and >= 1 generate_mesh step judged by the C11 oracle.",
    "C10": "one case = one seeded history (<= 12 calls over 1-3 sessions, 1-3 caller threads, frames in any order, any mix of "
           "methods / b_matrix modes / circle fits / angle limits, scheduled gc; every fourth seed is a cell of the systematic "
           "option-pair product) executed against real ForSys objects, each run in its own forked process; after "
           "every call every frame of every session is compared with a fresh object taken once through the reference "
           "model's registers.  distinct = distinct trace digests; non-trivial = >= 2 successful calls and >= 1 comparison "
           "against the fresh-object reference.",
}

COMPONENTS = {
    "real": ["forsys (all modules, imported from /repo's working tree)", "numpy", "scipy (nnls, lsq_linear, leastsq, Voronoi)",
             "lmfit", "circle_fit", "OpenCV findContours", "PIL", "pandas", "CPython reference counting and cyclic collector",
             "threading (caller threads, one released at a time)"],
    "stub": ["file system (in-memory open() bound on forsys.surface_evolver, BytesIO for images; shipped files are read from /repo)",
             "the human caller (seeded operation generator and reference holder)"],
}


def _seed_env(default=0):
    try:
        return int(os.environ.get("VERIF_SEED", default))
    except ValueError:
        return default


def write_evidence(prop, tier, seed, agg, violations, wall, extra=None):
    hours = max(wall, 1e-9) / 3600.0
    cov = {
        "evaluations": agg.runs,
        "distinct_nontrivial": len(agg.nontrivial),
        "rule": LEVEL_RULE[prop],
        "samples": agg.samples,
        "distinct_traces": len(agg.trace_digests),
        "runs_per_hour": round(agg.runs / hours),
        "seeds": {"first": agg.first_seed, "last": agg.last_seed, "base": seed},
        "seeds_per_hour": round(agg.runs / hours),
        "simulated_time": {"unit": "logical steps (no code under test reads a clock)", "steps": agg.steps,
                           "successful_operations": agg.steps_ok},
        "runs_per_configuration": agg.by_config,
        "operations": agg.ops,
        "outcomes": agg.outcomes,
        "faults_configured": agg.f_conf,
        "faults_fired": agg.f_fired,
        "finalizer_deliveries": agg.finalizers,
        "exceptions_inside_finalizers": agg.unraisable,
        "oracle_evaluations": agg.oracle_evals,
        "distinct_interleavings": {"measure": "distinct (operation kind, fault kind, thread != main) 3-grams over all traces",
                                   "count": len(agg.grams)},
        "distinct_states": {"measure": "distinct abstract states (see DESIGN 2.8)", "count": len(agg.states)},
        "reach_probes": agg.probes,
        "components": COMPONENTS,
        "grid_cells_covered": {"measure": ("distinct (series, first option set, second option set, variant) cells of the systematic 'pairs' configuration"
                                           if prop == "C10" else
                                           "distinct (tissue, ne, replace_short_edges, retained references) cells of the systematic 'grid' configuration"),
                               "count": len(agg.grid)},
        "extra": agg.extra,
    }
    if extra:
        cov.update(extra)
    stuck = [k for k in EXPECTED_PROBES.get(prop, []) if not agg.probes.get(k)]
    cov["probes_at_zero"] = stuck
    ev = {"property_id": prop, "tier": tier, "seed": seed, "level": "exploration", "coverage": cov,
          "assumptions": ASSUMPTIONS[prop], "wall_s": round(wall, 2), "violations": violations}
    os.makedirs(os.path.join(HERE, "evidence"), exist_ok=True)
    with open(os.path.join(HERE, "evidence", f"{prop}.json"), "w") as f:
        json.dump(ev, f, indent=1, sort_keys=True)
    return ev


EXPECTED_PROBES = {
    "C09": ["parsed:voronoi:direct", "parsed:voronoi:se", "parsed:voronoi:wkt", "parsed:tess:", "parsed:file_se:",
            "parsed:image:", "parsed:raster:", "frame-built", "merge:isolated-contraction", "merge:cascade",
            "resample:shortened-some", "resample:left-all-unchanged"],
    "C11": ["resample:shortened-some", "resample:left-all-unchanged", "merge:isolated-contraction",
            "idempotence-checked", "empty-cell-removal"],
    "C10": ["angle-limit-exclusion-nonempty", "velocity-call-compared", "solve:None:None", "solve:None:velocity",
            "solve:lsq_linear:None", "solve:lsq:None", "solve_pressure:lagrange_pressure", "parity:both-raise:solve_stress"],
}

ASSUMPTIONS = {
    "C09": ["sampling, not enumeration: a clean batch is evidence, not proof",
            "CPython 3.12 reference counting; finalizer delay/reorder/loss of other interpreters is approximated by held references",
            "digests are compared only under PYTHONHASHSEED=0 and single-threaded BLAS; verdicts do not depend on the pin",
            "inputs are those of DESIGN 2.9 (synthetic Voronoi tissues through every parser, tessellations, shipped dumps and skeleton images, synthetic rasters)"],
    "C11": ["sampling, not enumeration", "the reference analysis computes junctions and interfaces from the edge list and the cell cycles of the pre-call snapshot",
            "'on the border' is read as forsys classifies it (neither end belongs to three cells); contractions that share a vertex (cascades) and meshes that already contain two-vertex cells are outside the judged domain",
            "CPython 3.12; environment pin as for C09"],
    "C10": ["sampling, not enumeration", "the fresh-object reference is computed on the main thread by the same forsys code, so errors common to every history are invisible (they belong to C01-C05)",
            "numeric agreement is required to 1e-9 relative", "CPython 3.12; environment pin as for C09"],
}


def cmd_check(prop, tier, args):
    from . import runner, findings
    seed = args.seed if args.seed is not None else _seed_env(0)
    t0 = time.time()
    if tier == "quick":
        n = args.runs or QUICK_RUNS[prop]
        agg, bad, herr = runner.batch(prop, tier, seed, n_runs=n, budget_s=args.budget, workers=args.workers)
    else:
        budget = args.budget or float(os.environ.get("VERIF_BUDGET_S", THOROUGH_BUDGET_S))
        agg, bad, herr = runner.batch(prop, tier, seed, n_runs=args.runs, budget_s=budget, workers=args.workers)
    kf = findings.load()
    seen = {}
    for r in bad:
        for v in r["violations"]:
            sig = findings.signature(v)
            seen.setdefault(sig, []).append((r, v))
    n_viol = 0
    lines = []
    exit_code = 0
    known_printed = set()
    for sig, items in sorted(seen.items(), key=lambda kv: kv[1][0][0]["seed"]):
        ent = findings.match_open(sig, kf)
        if ent is not None:
            if ent["id"] not in known_printed:
                known_printed.add(ent["id"])
                lines.append(f"KNOWN-FINDING: property={prop} {ent['what']} (signature {list(sig)}, e.g. seed {items[0][0]['seed']})")
            continue
        n_viol += len(items)
        if exit_code == 0 or len([l for l in lines if l.startswith("VIOLATION")]) < 2:
            r, v = items[0]
            rec = dict(r)
            rec["violations"] = [v]
            rep = runner.report_violation(prop, rec, minimise=not args.no_min)
            if rep is None:
                herr.append(f"violation {list(sig)} at seed {r['seed']} did not reproduce from its trace in a fresh interpreter "
                            f"(determinism bug of the harness): {json.dumps(v)[:600]}")
                continue
            path, s2, vv = rep
            lines.append(f"VIOLATION property={prop} replay={path}")
            lines.append(f"  signature={list(sig)} seed={r['seed']} config={r['config']} what={json.dumps(vv.get('detail', vv))[:500]}")
            exit_code = 1
    # regression corpus: the minimised replays of every recorded finding (open and fixed) are re-executed on this tree;
    # a fixed defect that returns, or any violation they raise that is not a listed open finding, is reported
    import glob
    corpus_n = 0
    for fp in sorted(glob.glob(os.path.join(HERE, "findings", f"{prop}-*.json"))):
        try:
            with open(fp) as f:
                rp = json.load(f)
            if rp.get("property") != prop:
                continue
            res = runner.run_trace_fresh(rp["trace"])
        except Exception as ex:  # a corpus file that cannot be executed is a harness problem, never a clean result
            herr.append(f"regression corpus file {fp} could not be executed: {ex!r}")
            continue
        corpus_n += 1
        for v in res["violations"]:
            if v.get("prop") != prop:
                continue
            sig = findings.signature(v)
            ent = findings.match_open(sig, kf)
            if ent is not None:
                if ent["id"] not in known_printed:
                    known_printed.add(ent["id"])
                    lines.append(f"KNOWN-FINDING: property={prop} {ent['what']} (signature {list(sig)}, regression corpus {os.path.basename(fp)})")
                continue
            n_viol += 1
            lines.append(f"VIOLATION property={prop} replay={fp}")
            lines.append(f"  signature={list(sig)} regression-corpus what={json.dumps(v.get('detail', v))[:500]}")
            exit_code = 1
            break
    for e in kf.get("open", []):
        if e["property"] == prop and e["id"] not in known_printed:
            lines.append(f"KNOWN-FINDING: property={prop} {e['what']} (not re-observed in this run)")
    wall = time.time() - t0
    write_evidence(prop, tier, seed, agg, n_viol, wall)
    print(f"{prop} {tier}: runs={agg.runs} steps={agg.steps} distinct_nontrivial={len(agg.nontrivial)} "
          f"oracle_evals={agg.oracle_evals} faults_fired={sum(agg.f_fired.values())} wall={wall:.1f}s "
          f"({agg.runs / max(wall, 1e-9) * 3600:.0f} runs/h)")
    for l in lines:
        print(l)
    stuck = [k for k in EXPECTED_PROBES.get(prop, []) if not agg.probes.get(k)]
    if stuck:
        print("NOTE reach probes at zero in this run (retune the generator if this persists): " + ", ".join(stuck))
    if herr:
        for e in herr[:5]:
            print("HARNESS-ERROR " + e.replace("\n", "\n    "))
        if exit_code == 0:
            exit_code = 2
    if agg.runs == 0 and exit_code == 0:
        print("HARNESS-ERROR no run completed")
        exit_code = 2
    elif agg.oracle_evals == 0 and exit_code == 0:
        print("HARNESS-ERROR no oracle was evaluated in any run (nothing could be built?): a clean result would be vacuous")
        exit_code = 2
    return exit_code


def cmd_exec_trace():
    from . import engine
    trace = json.loads(sys.stdin.read())
    res = engine.run(trace)
    sys.stdout.write("\n" + json.dumps({"digest": res["digest"], "violations": res["violations"],
                                        "stats": res["stats"], "log": res["log"][-60:]}) + "\n")
    return 0


def cmd_replay(path):
    from . import runner, findings
    with open(path) as f:
        rp = json.load(f)
    res = runner.run_trace_fresh(rp["trace"])
    sig = tuple(rp["signature"])
    prop = rp["property"]
    hit = [v for v in res["violations"] if v["prop"] == prop and findings.signature(v) == sig]
    print(f"replay {path}: digest {'matches' if res['digest'] == rp.get('digest') else 'DIFFERS from'} the recorded one")
    for ln in res["log"][-12:]:
        print("   | " + ln)
    if hit and findings.match_open(sig) is not None:
        ent = findings.match_open(sig)
        print(f"KNOWN-FINDING: property={prop} {ent['what']}")
        print("  " + json.dumps(hit[0].get("detail", hit[0]))[:800])
        return 0
    if hit:
        print(f"VIOLATION property={prop} replay={path}")
        print("  " + json.dumps(hit[0].get("detail", hit[0]))[:800])
        return 1
    other = [v for v in res["violations"] if v["prop"] == prop]
    if other:
        print(f"VIOLATION property={prop} replay={path}")
        print("  (different signature than recorded) " + json.dumps(other[0])[:800])
        return 1
    print("replay executed: the recorded violation does not occur on this tree")
    return 0


def main(argv):
    if argv and argv[0] == "--exec-trace":
        return cmd_exec_trace()
    if argv and argv[0] == "--replay":
        return cmd_replay(argv[1])
    if argv and argv[0] == "selftest":
        from . import selftest
        return selftest.main(argv[1:])
    ap = argparse.ArgumentParser()
    ap.add_argument("prop", choices=["C09", "C10", "C11"])
    ap.add_argument("--tier", default=os.environ.get("VERIF_TIER", "quick"), choices=["quick", "thorough"])
    ap.add_argument("--seed", type=int, default=None)
    ap.add_argument("--runs", type=int, default=None)
    ap.add_argument("--budget", type=float, default=None)
    ap.add_argument("--workers", type=int, default=None)
    ap.add_argument("--no-min", action="store_true")
    args = ap.parse_args(argv)
    return cmd_check(args.prop, args.tier, args)
