"""Process isolation seams.

run_forked: every simulated run executes in a child forked from a worker that has imported
  forsys but never executed any forsys call, so module- or class-level state (caches, mutated
  default arguments, numpy error state) left by one run can never reach another run: one seed is
  one exactly repeatable execution whatever ran before in that worker.

RefServer: the "fresh object solved once" of C10 is computed in a *pristine process*: at the start
  of a run (before any call of the history) the run forks a zygote; every reference evaluation is
  a grandchild forked from that zygote, so process-global state written by the history cannot leak
  into the reference (a module-level cache would otherwise poison both sides equally).
"""
import json
import os
import select
import signal
import struct
import time
import traceback


def _write_all(fd, data):
    view = memoryview(data)
    while view:
        n = os.write(fd, view)
        view = view[n:]


def _read_exact(fd, n, deadline=None):
    buf = bytearray()
    while len(buf) < n:
        if deadline is not None:
            left = deadline - time.time()
            if left <= 0:
                raise TimeoutError("no answer within the cap")
            r, _, _ = select.select([fd], [], [], min(left, 5.0))
            if not r:
                continue
        chunk = os.read(fd, min(1 << 20, n - len(buf)))
        if not chunk:
            raise EOFError("pipe closed")
        buf += chunk
    return bytes(buf)


def send_msg(fd, obj):
    data = json.dumps(obj).encode()
    _write_all(fd, struct.pack("<Q", len(data)) + data)


def recv_msg(fd, deadline=None):
    (n,) = struct.unpack("<Q", _read_exact(fd, 8, deadline))
    return json.loads(_read_exact(fd, n, deadline).decode())


def run_forked(fn, cap_s):
    """Run fn() in a forked child; -> its JSON-able result. Raises on crash / timeout."""
    r, w = os.pipe()
    pid = os.fork()
    if pid == 0:
        code = 0
        try:
            os.close(r)
            try:
                res = {"ok": fn()}
            except BaseException as e:  # noqa
                res = {"error": "".join(traceback.format_exception(e))[-4000:]}
            send_msg(w, res)
        except BaseException:
            code = 3
        finally:
            os._exit(code)
    os.close(w)
    try:
        res = recv_msg(r, time.time() + cap_s)
    except (TimeoutError, EOFError) as e:
        try:
            os.kill(pid, signal.SIGKILL)
        except ProcessLookupError:
            pass
        os.waitpid(pid, 0)
        os.close(r)
        raise RuntimeError(f"isolated run failed: {e!r}")
    os.close(r)
    os.waitpid(pid, 0)
    if "error" in res:
        raise RuntimeError("isolated run raised:\n" + res["error"])
    return res["ok"]


class RefServer:
    """Zygote forked from a pristine state; answers requests by forking a grandchild each."""

    def __init__(self, handler, cap_s=180):
        self.cap_s = cap_s
        self.req_r, self.req_w = os.pipe()
        self.res_r, self.res_w = os.pipe()
        self.pid = os.fork()
        if self.pid == 0:
            try:
                os.close(self.req_w)
                os.close(self.res_r)
                self._serve(handler)
            finally:
                os._exit(0)
        os.close(self.req_r)
        os.close(self.res_w)
        self.calls = 0

    def _serve(self, handler):
        while True:
            try:
                req = recv_msg(self.req_r)
            except EOFError:
                return
            pid = os.fork()
            if pid == 0:
                code = 0
                try:
                    try:
                        out = {"ok": handler(req)}
                    except BaseException as e:  # noqa
                        out = {"error": "".join(traceback.format_exception(e))[-3000:]}
                    send_msg(self.res_w, out)
                except BaseException:
                    code = 3
                finally:
                    os._exit(code)
            _, status = os.waitpid(pid, 0)
            if status != 0:
                send_msg(self.res_w, {"error": f"reference process died with status {status}"})

    def call(self, req):
        self.calls += 1
        send_msg(self.req_w, req)
        out = recv_msg(self.res_r, time.time() + self.cap_s)
        if "error" in out:
            raise RuntimeError("reference evaluation failed in the harness:\n" + out["error"])
        return out["ok"]

    def close(self):
        try:
            os.close(self.req_w)
        except OSError:
            pass
        try:
            os.waitpid(self.pid, 0)
        except ChildProcessError:
            pass
        try:
            os.close(self.res_r)
        except OSError:
            pass
