"""Construction paths: the same Tissue through every parser C09 names.

No disk traffic: Surface Evolver dumps are served from memory through a module-global
`open` bound on forsys.surface_evolver (falls back to the real open for shipped files);
skeleton images are passed as BytesIO.
"""
import builtins
import io
import random

_MEM = {}


def _mem_open(name, mode="r", *a, **k):
    if isinstance(name, str) and name in _MEM:
        return io.StringIO(_MEM[name])
    return builtins.open(name, mode, *a, **k)


def install_seams(fs):
    fs.surface_evolver.open = _mem_open


def mem_put(name, text):
    _MEM[name] = text


def mem_clear():
    _MEM.clear()


# ---------------------------------------------------------------- direct
def build_direct(fs, T):
    import forsys.vertex as fv
    import forsys.edge as fe
    import forsys.cell as fc
    vertices = {vid: fv.Vertex(vid, x, y) for vid, (x, y) in T.verts.items()}
    edges = {}
    for eid, a, b in T.edges:
        edges[eid] = fe.SmallEdge(eid, vertices[a], vertices[b])
        edges[eid].gt = T.gt[eid]
    cells = {}
    for cid, cyc in T.cells.items():
        cells[cid] = fc.Cell(cid, [vertices[v] for v in cyc], gt_pressure=T.pressure[cid])
    return vertices, edges, cells


# ---------------------------------------------------------------- Surface Evolver dump
def se_dump_text(T, opts=None):
    """Independent serialiser of the Surface Evolver dump layout forsys reads."""
    opts = opts or {}
    r = random.Random(f"se:{opts.get('seed', 0)}")
    width = opts.get("wrap", 10)
    orphans = opts.get("orphans", 0)
    out = ["// synthetic dump", "SPACE_DIMENSION 2", "", "vertices        /*  coordinates  */    "]
    verts = dict(T.verts)
    edges = list(T.edges)
    gt = dict(T.gt)
    if orphans:
        # face-less vertices: struts tied to one or several tissue vertices and / or to each other
        vmax = max(verts) + 3
        emax = max(e for e, _, _ in edges) + 3
        xs = [p[0] for p in verts.values()]
        ys = [p[1] for p in verts.values()]
        real = sorted(verts)
        made = []
        ne = 0
        for i in range(orphans):
            vid = vmax + 2 * i
            verts[vid] = (round(max(xs) + 5.0 + 1.7 * i, 3), round(max(ys) + 5.0 + 0.9 * i, 3))
            others = set()
            for _ in range(r.choice([1, 1, 2, 3])):
                others.add(r.choice(made) if (made and r.random() < 0.35) else r.choice(real))
            for other in sorted(others):
                eid = emax + 2 * ne
                ne += 1
                edges.append((eid, vid, other) if r.random() < 0.5 else (eid, other, vid))
                gt[eid] = 1.0
            made.append(vid)
    sep = "\t" if opts.get("tabs") else "  "
    fmt = (lambda z: "%.6e" % z) if opts.get("sci") and all(abs(c) < 9000 for p_ in verts.values() for c in p_) else repr
    for vid in (sorted(verts) if not opts.get("keep_order") else list(verts)):
        x, y = verts[vid]
        out.append(f"{sep}{vid}{sep} {fmt(x)}{sep}{fmt(y)}")
    out.append("")
    out.append("edges  ")
    for eid, a, b in (sorted(edges) if not opts.get("keep_order") else edges):
        out.append(f"{sep}{eid}{sep}     {a}{sep}{b}{sep}    density {gt[eid]!r} ")
    out.append("")
    out.append("faces    /* edge loop */      ")
    elook = {}
    for eid, a, b in edges:
        elook[(a, b)] = eid
        elook[(b, a)] = -eid
    cids = sorted(T.cells) if not opts.get("keep_order") else list(T.cells)
    ndrop = min(opts.get("drop_faces", 0), max(0, len(cids) - 1))
    if ndrop:
        # a dump from which faces (and their bodies) were cut out while their vertices and edges stayed
        dropped = set(r.sample(cids, ndrop))
        cids = [c for c in cids if c not in dropped]
    for cid in cids:
        cyc = T.cells[cid]
        signed = [elook[(a, b)] for a, b in zip(cyc, cyc[1:] + cyc[:1])]
        toks = [str(s) for s in signed]
        if len(toks) <= width:
            out.append(f"  {cid}   " + " ".join(toks) + " /*area -500*/")
        else:
            chunks = [toks[i:i + width] for i in range(0, len(toks), width)]
            out.append(f"  {cid}   " + " ".join(chunks[0]) + " \\")
            for ch in chunks[1:-1]:
                out.append("               " + " ".join(ch) + " \\")
            out.append("               " + " ".join(chunks[-1]) + " /*area -500*/")
    out.append("")
    out.append("bodies  /* facets */")
    for cid in cids:
        out.append(f"  {cid}       -{cid}  volume 500  /*actual: 500*/ lagrange_multiplier {T.pressure[cid]!r}  centerofmass ")
    out.append("")
    out.append("read")
    out.append("")
    trail = opts.get("trail")
    if trail:
        # trailing blanks, as editors and exporters leave them (the shipped dumps have them on edge lines)
        tr = random.Random(f"trail:{opts.get('seed', 0)}")
        out = [ln + (tr.choice(["", " ", "  ", "\t"]) if (trail == "some" and ln) else (" " if ln else "")) for ln in out]
    return "\n".join(out)


def build_se(fs, T, name, opts=None):
    """The dump is served from memory through the `open` seam; a real (tmpfs) file with the same
    content backs it, so that a parser refactored to read the file some other way (pathlib,
    io.open, pandas) still sees the input instead of silently turning every SE parse into
    'file not found'."""
    import os
    import tempfile
    text = se_dump_text(T, opts)
    base = "/dev/shm" if os.path.isdir("/dev/shm") else None
    d = tempfile.mkdtemp(prefix="verif-se-", dir=base)
    path = os.path.join(d, name.replace(":", "_") + ".dmp")
    try:
        with builtins.open(path, "w") as f:
            f.write(text)
        mem_put(path, text)
        se = fs.surface_evolver.SurfaceEvolver(path)
        return se.vertices, se.edges, se.cells
    finally:
        _MEM.pop(path, None)
        try:
            os.unlink(path)
            os.rmdir(d)
        except OSError:
            pass


def build_se_file(fs, path):
    se = fs.surface_evolver.SurfaceEvolver(path)
    return se.vertices, se.edges, se.cells


# ---------------------------------------------------------------- WKT
def wkt_rows(T):
    rows = []
    for cid in T.cells:
        cyc = T.cells[cid]
        pts = [T.verts[v] for v in cyc] + [T.verts[cyc[0]]]
        rows.append("POLYGON ((" + ", ".join(f"{x!r} {1024 - y!r}" for x, y in pts) + "))")
    return rows


def build_wkt(fs, T):
    return fs.wkt.create_lattice(wkt_rows(T))


# ---------------------------------------------------------------- tessellation
def build_tess(fs, sites, max_distance=75):
    elems = fs.tessellation.create_lattice_elements([tuple(s) for s in sites], max_distance=max_distance)
    return fs.tessellation.create_lattice(*elems)


# ---------------------------------------------------------------- skeleton image
def build_skeleton(fs, data, mirror_y=False, reduce_amount=False, rescale=None, offset=None, keep=None):
    """keep: a dict owned by the caller's slot; when it already holds a parser object for this input the
    lattice is built again by the SAME Skeleton object (a user re-running the parse cell of a notebook)."""
    if keep is not None and keep.get("obj") is not None:
        sk = keep["obj"]
    else:
        sk = fs.skeleton.Skeleton(io.BytesIO(data), mirror_y=mirror_y)
        if keep is not None:
            keep["obj"] = sk
    kw = {}
    if reduce_amount:
        kw["reduce_amount"] = True
    if rescale:
        kw["rescale"] = list(rescale)
    if offset:
        kw["offset"] = list(offset)
    return sk.create_lattice(**kw)
