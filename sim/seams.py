"""Seams the simulator owns: collector control, finalizer observation, line-event
pre-emption points inside forsys code, stdout sink, unraisable-exception capture.
No hook in /repo is needed for any of them.
"""
import contextlib
import gc
import io
import os
import sys
import threading


class FinalizerLog:
    """Wraps SmallEdge.__del__ / Cell.__del__ (class attributes) to observe deliveries.
    The original finalizer is always called; nothing is drawn from a PRNG here."""

    def __init__(self, fs):
        import forsys.edge as fe
        import forsys.cell as fc
        self.fe, self.fc = fe, fc
        self.orig_e = fe.SmallEdge.__dict__.get("__del__")
        self.orig_c = fc.Cell.__dict__.get("__del__")
        self.phase = "idle"   # "call" while a forsys API call runs, "fault" while a release/gc step runs
        self.in_gc = False
        self.counts = {}
        self.events = []
        log = self

        def del_e(obj):
            log._note("edge", obj)
            if log.orig_e is not None:
                log.orig_e(obj)

        def del_c(obj):
            log._note("cell", obj)
            if log.orig_c is not None:
                log.orig_c(obj)

        fe.SmallEdge.__del__ = del_e
        fc.Cell.__del__ = del_c
        self._gc_cb = self._gc_callback
        gc.callbacks.append(self._gc_cb)

    def _gc_callback(self, phase, info):
        self.in_gc = (phase == "start")

    def _note(self, kind, obj):
        when = "in-gc" if self.in_gc else ("sync" if self.phase == "call" else "late")
        k = f"{kind}:{when}"
        self.counts[k] = self.counts.get(k, 0) + 1
        if when != "sync" and len(self.events) < 2000:
            self.events.append((kind, getattr(obj, "id", None), when))

    def reset(self):
        self.counts = {}
        self.events = []
        self.phase = "idle"
        self.in_gc = False

    def uninstall(self):
        if self.orig_e is not None:
            self.fe.SmallEdge.__del__ = self.orig_e
        if self.orig_c is not None:
            self.fc.Cell.__del__ = self.orig_c
        try:
            gc.callbacks.remove(self._gc_cb)
        except ValueError:
            pass


class ReachProbes:
    """Counters on function wrappers (not on line numbers, so they survive edits)."""

    def __init__(self, fs):
        import functools
        import forsys.cell as fc
        import forsys.edge as fe
        import forsys.skeleton as fsk
        import forsys.virtual_edges as fve
        self.counts = {}
        probes = self

        def wrap(owner, name, label):
            orig = getattr(owner, name, None)
            if orig is None:
                return

            @functools.wraps(orig)
            def w(*a, **k):
                probes.counts[label] = probes.counts.get(label, 0) + 1
                return orig(*a, **k)
            setattr(owner, name, w)

        wrap(fve, "join_two_vertices", "join_two_vertices-ran")
        # T3 transitions: also remember which vertices they merge away (facts for a cause class)
        self.t3_removed = set()
        orig_t3 = getattr(fsk.Skeleton, "do_t3_transition", None)
        if orig_t3 is not None:
            @functools.wraps(orig_t3)
            def t3(sk_self, artifact, *a, **k):
                probes.counts["do_t3_transition-ran"] = probes.counts.get("do_t3_transition-ran", 0) + 1
                try:
                    probes.t3_removed.update(int(x) for x in artifact)
                except Exception:
                    pass
                return orig_t3(sk_self, artifact, *a, **k)
            fsk.Skeleton.do_t3_transition = t3
        wrap(fc.Cell, "replace_vertex", "Cell.replace_vertex-ran")
        wrap(fe.SmallEdge, "replace_vertex", "SmallEdge.replace_vertex-ran")
        wrap(fe.SmallEdge, "unregister", "SmallEdge.unregister-ran")

    def reset(self):
        self.counts = {}
        self.t3_removed = set()


class Unraisable:
    """Collects exceptions raised inside finalizers (Python prints and ignores them)."""

    def __init__(self):
        self.items = []
        self._old = None

    def __enter__(self):
        self._old = sys.unraisablehook

        def hook(u):
            self.items.append((type(u.exc_value).__name__, str(u.exc_value)[:80],
                               getattr(getattr(u, "object", None), "__qualname__", "")))
        sys.unraisablehook = hook
        return self

    def __exit__(self, *a):
        sys.unraisablehook = self._old


class LinePreempt:
    """gc-inside: run gc.collect() at the k-th LINE event inside forsys/*.py during one call
    (sys.monitoring, Python >= 3.12).  Also usable only to count line events."""

    TOOL = 3

    def __init__(self, forsys_dir):
        self.dir = os.path.realpath(forsys_dir) + os.sep
        self.count = 0
        self.at = None
        self.fired = 0
        self.collected = 0
        self.active = False
        self._mon = getattr(sys, "monitoring", None)
        self._codes = {}

    def available(self):
        return self._mon is not None

    def _line(self, code, lineno):
        ok = self._codes.get(code)
        if ok is None:
            fn = code.co_filename
            ok = os.path.realpath(fn).startswith(self.dir) if fn and not fn.startswith("<") else False
            self._codes[code] = ok
        if not ok:
            return self._mon.DISABLE
        self.count += 1
        if self.at is not None and self.count == self.at:
            self.fired += 1
            self.collected += gc.collect()
        return None

    @contextlib.contextmanager
    def during(self, at):
        if self._mon is None:
            yield self
            return
        mon = self._mon
        self.count = 0
        self.at = at
        self.fired = 0
        self.collected = 0
        mon.use_tool_id(self.TOOL, "verif-gc-inside")
        mon.register_callback(self.TOOL, mon.events.LINE, self._line)
        mon.set_events(self.TOOL, mon.events.LINE)
        try:
            yield self
        finally:
            mon.set_events(self.TOOL, 0)
            mon.register_callback(self.TOOL, mon.events.LINE, None)
            mon.free_tool_id(self.TOOL)
            mon.restart_events()
            self.at = None


@contextlib.contextmanager
def quiet():
    """forsys prints diagnostics; they go to a sink, only the length is logged."""
    buf = io.StringIO()
    old = sys.stdout
    sys.stdout = buf
    try:
        yield buf
    finally:
        sys.stdout = old


class Baton:
    """K caller threads parked on a baton: the scheduler hands exactly one of them one
    call and waits until it parks again, so nothing ever runs concurrently and the
    interleaving is the scheduler's decision.  Threads are created fresh per run (fresh
    thread-local numpy error state)."""

    def __init__(self, k):
        self.k = k
        self.threads = []
        self.req = [None] * k
        self.res = [None] * k
        self.go = [threading.Semaphore(0) for _ in range(k)]
        self.done = threading.Semaphore(0)
        self.stop = False
        for i in range(1, k):  # thread 0 is the main thread itself
            t = threading.Thread(target=self._loop, args=(i,), name=f"caller-{i}", daemon=True)
            t.start()
            self.threads.append(t)

    def _loop(self, i):
        while True:
            self.go[i].acquire()
            if self.stop:
                return
            fn = self.req[i]
            try:
                self.res[i] = ("ok", fn())
            except BaseException as e:  # noqa
                self.res[i] = ("exc", e)
            self.done.release()

    def call(self, i, fn):
        i = i % self.k
        if i == 0:
            return fn()
        self.req[i] = fn
        self.go[i].release()
        self.done.acquire()
        kind, val = self.res[i]
        self.req[i] = None
        self.res[i] = None
        if kind == "exc":
            raise val
        return val

    def close(self):
        self.stop = True
        for i in range(1, self.k):
            self.go[i].release()
        for t in self.threads:
            t.join(timeout=5)
