"""Per-process engine: imports forsys from the tree under test, installs seams, runs one
trace.  Everything here is a pure function of (trace, code) under the environment pin of
./check (PYTHONHASHSEED=0, single-threaded BLAS)."""
import os
import sys

_STATE = {}


def repo_root():
    return os.environ.get("VERIF_REPO", "/repo")


def get():
    if _STATE:
        return _STATE
    root = repo_root()
    if root not in sys.path:
        sys.path.insert(0, root)
    try:
        import cv2
        cv2.setNumThreads(1)
    except Exception:
        pass
    import forsys as fs
    here = os.path.realpath(os.path.dirname(fs.__file__))
    if not here.startswith(os.path.realpath(root)):
        raise RuntimeError(f"forsys imported from {here}, expected under {root}")
    from . import paths, seams
    paths.install_seams(fs)
    _STATE["fs"] = fs
    _STATE["flog"] = seams.FinalizerLog(fs)
    _STATE["preempt"] = seams.LinePreempt(here)
    _STATE["probes"] = seams.ReachProbes(fs)
    _STATE["dir"] = here
    import gc
    import pandas, scipy.optimize, scipy.spatial, lmfit, PIL.Image  # noqa: F401  (everything a run may import)
    gc.collect()
    gc.freeze()   # imported modules are permanent: scheduled collections only look at run objects
    return _STATE


def reset_between_runs():
    """What a run may have touched in this worker process."""
    import numpy as np
    np.seterr(all="raise")   # the import-time state of the main thread (forsys/__init__.py)
    from . import paths
    paths.mem_clear()


def run(trace, collect_states=False):
    st = get()
    reset_between_runs()
    st["probes"].reset()
    if trace["kind"] == "mesh":
        from . import meshworld
        res = meshworld.run_trace(st["fs"], trace, st["flog"], st["preempt"], collect_states)
    else:
        from . import solverworld
        res = solverworld.run_trace(st["fs"], trace, st["flog"], st["preempt"], collect_states)
    for k, v in st["probes"].counts.items():
        res["stats"]["probes"][k] = res["stats"]["probes"].get(k, 0) + v
    return res


def run_isolated(trace, collect_states=False, cap_s=240):
    """One run = one forked child of this (pristine) process: nothing a run writes into
    module- or class-level state can reach another run."""
    from . import isolate
    get()
    return isolate.run_forked(lambda: run(trace, collect_states), cap_s)


def gen(prop, seed, config, tier):
    if prop in ("C09", "C11"):
        from . import meshworld
        return meshworld.gen_trace(seed, config, prop, tier)
    from . import solverworld
    return solverworld.gen_trace(seed, config, tier)
