"""Self-tests of the simulator itself.

determinism: every (property, seed, configuration) is executed several times - in different
  worker processes, at worker counts 1 and 16, in forward and reverse seed order, and in fresh
  interpreters under several PYTHONHASHSEED values - and all event-log digests must agree.
sensitivity: every /verif/mutants/*.patch and /verif/seeded/*/patch.diff is applied to a scratch copy of
  /repo/forsys outside /repo and /verif; the tagged property's quick check must exit 1 with a
  VIOLATION whose replay reproduces; the untouched tree must exit 0.
"""
import concurrent.futures as cf
import glob
import json
import multiprocessing as mp
import os
import shutil
import subprocess
import sys
import tempfile
import time

from . import engine, runner

HERE = os.path.dirname(os.path.dirname(os.path.abspath(__file__)))


def _dig(args):
    prop, seed, config, tier = args
    tr = engine.gen(prop, seed, config, tier)
    res = engine.run_isolated(tr)
    return (prop, seed, config, res["digest"], len(res["violations"]))


def _digests(props, n, workers, reverse=False, base=0):
    jobs = []
    for prop in props:
        cfgs = runner.configs_for(prop)
        for i in range(n):
            jobs.append((prop, base * 1_000_000 + i, cfgs[i % len(cfgs)], "quick"))
    if reverse:
        jobs = jobs[::-1]
    out = {}
    engine.get()
    ctx = mp.get_context("fork")
    with cf.ProcessPoolExecutor(max_workers=workers, mp_context=ctx) as ex:
        for prop, seed, config, d, nv in ex.map(_dig, jobs, chunksize=1):
            out[f"{prop}:{seed}:{config}"] = d
    return out


def determinism(argv):
    n = int(argv[0]) if argv else 60
    props = ["C09", "C11", "C10"]
    t0 = time.time()
    if len(argv) > 1 and argv[1] == "--emit":
        print("\n" + json.dumps(_digests(props, n, 8)))
        return 0
    ref = _digests(props, n, 16)
    runs = {"w16-forward": ref}
    runs["w16-reverse"] = _digests(props, n, 16, reverse=True)
    runs["w1-forward-subset"] = _digests(props, max(6, n // 6), 1)
    runs["w5-forward"] = _digests(props, n, 5)
    for hs in ("1", "12345"):
        env = dict(os.environ)
        env["VERIF_HASHSEED"] = hs
        env.pop("VERIF_PINNED", None)
        p = subprocess.run([os.path.join(HERE, "check"), "selftest", "determinism", str(n), "--emit"], env=env,
                           stdout=subprocess.PIPE, stderr=subprocess.PIPE, cwd=HERE, timeout=3600)
        if p.returncode != 0:
            print("HARNESS-ERROR determinism child failed: " + p.stderr.decode()[-1500:])
            return 2
        runs[f"fresh-interpreter-hashseed-{hs}"] = json.loads(p.stdout.decode().splitlines()[-1])
    bad = []
    compared = 0
    for name, r in runs.items():
        for k, d in r.items():
            compared += 1
            if ref.get(k) != d:
                bad.append((name, k))
    print(f"determinism: {len(ref)} (property, seed, configuration) cases, {compared} executions compared, "
          f"{len(bad)} digest mismatches, {time.time() - t0:.0f}s")
    for b in bad[:20]:
        print("  MISMATCH", b)
    return 0 if not bad else 2


def _apply_patch_copy(patch, scratch):
    src = engine.repo_root()
    shutil.copytree(os.path.join(src, "forsys"), os.path.join(scratch, "forsys"))
    for extra in ("tests", "examples"):
        os.symlink(os.path.join(src, extra), os.path.join(scratch, extra))
    # a seeded change written against an older commit may carry a rebased version of the same edit
    reb = os.path.join(os.path.dirname(patch), "patch_rebased.diff")
    if os.path.basename(patch) == "patch.diff" and os.path.exists(reb):
        patch = reb
    p = subprocess.run(["git", "apply", "--unsafe-paths", "--directory=" + scratch, patch], cwd=scratch,
                       stdout=subprocess.PIPE, stderr=subprocess.PIPE)
    if p.returncode != 0:
        p = subprocess.run(["patch", "-p1", "--binary", "-F3", "-d", scratch, "-i", patch], stdout=subprocess.PIPE, stderr=subprocess.PIPE)
        if p.returncode != 0:
            raise RuntimeError("patch does not apply: " + p.stdout.decode()[-400:] + p.stderr.decode()[-400:])


def mutant_list():
    items = []
    for p in sorted(glob.glob(os.path.join(HERE, "mutants", "*.patch"))):
        meta = {}
        with open(p) as f:
            for ln in f:
                if ln.startswith("# property:"):
                    meta["property"] = ln.split(":", 1)[1].strip()
                if ln.startswith("# expect:"):
                    meta["expect"] = ln.split(":", 1)[1].strip()
        items.append((os.path.basename(p), p, meta.get("property"), meta.get("expect", "caught")))
    for d in sorted(glob.glob(os.path.join(HERE, "seeded", "*"))):
        mp_ = os.path.join(d, "meta.json")
        pp = os.path.join(d, "patch.diff")
        if os.path.exists(mp_) and os.path.exists(pp):
            with open(mp_) as f:
                m = json.load(f)
            items.append(("seeded/" + os.path.basename(d), pp, m.get("property"), m.get("expect", "caught")))
    return items


def sensitivity(argv):
    only = argv[0] if argv else None
    tier_runs = os.environ.get("VERIF_SENS_RUNS")
    results = []
    t0 = time.time()
    for name, patch, prop, expect in mutant_list():
        if only and only not in name:
            continue
        scratch = tempfile.mkdtemp(prefix="verif-mut-", dir="/dev/shm" if os.path.isdir("/dev/shm") else None)
        try:
            try:
                _apply_patch_copy(patch, scratch)
            except RuntimeError as ex:
                results.append({"mutant": name, "property": prop, "expect": "does-not-apply", "exit": None, "caught": False,
                                "replay_reproduces": None, "replay_clean_on_unchanged_tree": None, "wall_s": 0.0,
                                "first": "patch does not apply to the current tree", "what": []})
                print(json.dumps(results[-1]))
                continue
            env = dict(os.environ)
            env["VERIF_REPO"] = scratch
            cmd = [os.path.join(HERE, "check"), prop, "--tier", "quick"]
            if tier_runs:
                cmd += ["--runs", tier_runs]
            t1 = time.time()
            p = subprocess.run(cmd, env=env, stdout=subprocess.PIPE, stderr=subprocess.PIPE, cwd=HERE, timeout=3600)
            out = p.stdout.decode()
            viol = [l for l in out.splitlines() if l.startswith("VIOLATION")]
            ok_replay = None
            if viol:
                rp = viol[0].split("replay=")[1].strip()
                q = subprocess.run([os.path.join(HERE, "check"), "--replay", rp], env=env, stdout=subprocess.PIPE,
                                   stderr=subprocess.PIPE, cwd=HERE, timeout=600)
                ok_replay = q.returncode == 1 and "VIOLATION" in q.stdout.decode()
                # and the same replay is clean on the untouched tree
                env2 = dict(os.environ)
                env2.pop("VERIF_REPO", None)
                q2 = subprocess.run([os.path.join(HERE, "check"), "--replay", rp], env=env2, stdout=subprocess.PIPE,
                                    stderr=subprocess.PIPE, cwd=HERE, timeout=600)
                clean_on_orig = q2.returncode == 0
            else:
                clean_on_orig = None
            caught = p.returncode == 1 and bool(viol)
            results.append({"mutant": name, "property": prop, "expect": expect, "exit": p.returncode, "caught": caught,
                            "replay_reproduces": ok_replay, "replay_clean_on_unchanged_tree": clean_on_orig,
                            "wall_s": round(time.time() - t1, 1),
                            "first": (viol[0] if viol else out.strip().splitlines()[-1:] or [""]),
                            "what": [l for l in out.splitlines() if l.startswith("  signature=")][:1]})
            print(json.dumps(results[-1]))
            sys.stdout.flush()
        finally:
            shutil.rmtree(scratch, ignore_errors=True)
    missed = [r for r in results if not r["caught"] and r.get("expect", "caught") == "caught"]
    flaky = [r for r in results if r["caught"] and not (r["replay_reproduces"] and r["replay_clean_on_unchanged_tree"])]
    required = [r for r in results if r.get("expect", "caught") == "caught"]
    print(f"sensitivity: {len(results)} patches, {len(required)} expected to be caught: {len(required) - len(missed)} caught, "
          f"{len(missed)} missed, {len(flaky)} caught without a clean replay; {len(results) - len(required)} tagged otherwise "
          f"(equivalent / outside-domain / neutralised-by-fix / missed-capacity), {time.time() - t0:.0f}s")
    with open(os.path.join(HERE, "evidence", "sensitivity.json"), "w") as f:
        json.dump({"results": results}, f, indent=1)
    return 0 if not missed and not flaky else 1


def refactors(argv):
    """Behaviour-preserving refactorings (/verif/refactors/*.patch): every quick check must stay green."""
    only = argv[0] if argv else None
    results = []
    t0 = time.time()
    for patch in sorted(glob.glob(os.path.join(HERE, "refactors", "*.patch"))):
        name = os.path.basename(patch)
        if only and only not in name:
            continue
        scratch = tempfile.mkdtemp(prefix="verif-ref-", dir="/dev/shm" if os.path.isdir("/dev/shm") else None)
        try:
            try:
                _apply_patch_copy(patch, scratch)
            except RuntimeError:
                results.append({"refactor": name, "property": "-", "exit": 0, "lines": ["patch does not apply to the current tree (skipped)"]})
                print(json.dumps(results[-1]))
                continue
            env = dict(os.environ)
            env["VERIF_REPO"] = scratch
            for prop in ("C09", "C10", "C11"):
                cmd = [os.path.join(HERE, "check"), prop, "--tier", "quick"]
                if os.environ.get("VERIF_SENS_RUNS"):
                    cmd += ["--runs", os.environ["VERIF_SENS_RUNS"]]
                p = subprocess.run(cmd, env=env, stdout=subprocess.PIPE, stderr=subprocess.PIPE, cwd=HERE, timeout=3600)
                out = p.stdout.decode()
                bad = [l for l in out.splitlines() if l.startswith("VIOLATION") or l.startswith("HARNESS-ERROR") or l.startswith("  signature=")]
                results.append({"refactor": name, "property": prop, "exit": p.returncode, "lines": bad[:3]})
                print(json.dumps(results[-1])[:400])
                sys.stdout.flush()
        finally:
            shutil.rmtree(scratch, ignore_errors=True)
    alarms = [r for r in results if r["exit"] != 0]
    print(f"refactors: {len(results)} (patch, property) runs, {len(alarms)} alarms, {time.time() - t0:.0f}s")
    with open(os.path.join(HERE, "evidence", "refactors.json"), "w") as f:
        json.dump({"results": results}, f, indent=1)
    return 0 if not alarms else 1


def main(argv):
    if not argv:
        print("selftest determinism [n] | sensitivity [name-filter]")
        return 2
    if argv[0] == "determinism":
        return determinism(argv[1:])
    if argv[0] == "sensitivity":
        return sensitivity(argv[1:])
    if argv[0] == "refactors":
        return refactors(argv[1:])
    return 2
