"""Mesh-history simulation (C09, C11): trace generator and trace executor.

A trace is a JSON object {"inputs": [...], "steps": [...]} of fully explicit steps; the
executor is a pure function of (trace, code under test).  Operands are interpreted totally
(indices modulo what exists, a step that cannot apply is a logged no-op) so that any
sub-sequence of a trace is again a valid trace.
"""
import gc
import hashlib
import json
import math
import os

from . import rng as R
from . import tissue as TS
from . import paths as P
from . import seams
from . import mesh_oracle as MO
from . import resample_oracle as RO
from . import shipped

CONFIGS = ("baseline", "A", "AB")


# ------------------------------------------------------------------ generator
def gen_input(r, tier, prop):
    kind = R.choice_w(r, [("voronoi", 62), ("tess", 10), ("file_se", 5 if tier == "quick" else 8),
                          ("image", 6 if tier == "quick" else 12), ("raster", 8)])
    if kind == "voronoi":
        spec = TS.random_spec(r, max_side=5 if tier == "quick" else 6, kmax=40)
        path = R.choice_w(r, [("direct", 4), ("se", 4), ("wkt", 2)])
        inp = {"kind": "voronoi", "spec": spec, "path": path}
        if path == "se":
            inp["se_opts"] = {"wrap": r.choice([3, 7, 10, 400]), "orphans": r.choice([0, 0, 1, 3, 5]),
                              "drop_faces": r.choice([0, 0, 0, 1, 2]), "seed": r.randrange(1000),
                              "keep_order": r.random() < 0.4, "tabs": r.random() < 0.2, "sci": r.random() < 0.2,
                              "trail": r.choice([None, None, "all", "some"])}
        return inp
    if kind == "tess":
        n = r.randint(8, 36)
        side = r.choice([30.0, 45.0, 60.0])
        sites = [[round(r.uniform(0, side), 3), round(r.uniform(0, side), 3)] for _ in range(n)]
        return {"kind": "tess", "sites": sites, "max_distance": r.choice([40, 75])}
    if kind == "file_se":
        return {"kind": "file_se", "file": r.choice(shipped.se_files(small=(tier == "quick")))}
    if kind == "image":
        return shipped.random_image_input(r, tier)
    return shipped.random_raster_input(r, tier)


GRID_NE = list(range(1, 13))
GRID_FLAG = [True, False, None]
GRID_RETAIN = [None, "edge_last", "edges_all", "cells_all"]
GRID_SIZE = len(GRID_NE) * len(GRID_FLAG) * len(GRID_RETAIN)


def gen_grid_trace(seed, prop, tier):
    """Systematic part of the search: for a seeded small tissue, one cell of the product the
    quantifiers name (ne 1..12 x replace_short_edges on / off / default x who holds references):
    parse, [retain], generate_mesh, the same generate_mesh again, Frame, [release]."""
    base, idx = divmod(seed, 1_000_000)
    g = idx // 4
    if g % 12 == 0:
        # every shipped skeleton, whole, under the 8 symmetries of the square and with / without mirror_y
        files = shipped.image_files()
        combos = len(files) * 16
        k = (base * 37 + (g // 12) * 11) % combos
        inp = {"kind": "image", "file": files[k % len(files)], "sym": (k // len(files)) % 8, "pad": [0, 5][k % 2],
               "mirror_y": bool(k // (len(files) * 8)), "reduce_amount": False}
        ne = [6, 3, 9, 4][(g // 12) % 4]
        steps = [{"op": "parse", "slot": 0, "input": 0},
                 {"op": "generate_mesh", "slot": 0, "ne": ne, "rse": None},
                 {"op": "frame", "slot": 0, "gt": False, "keep": False}]
        return {"kind": "mesh", "prop": prop, "config": "grid", "seed": seed, "inputs": [inp], "steps": steps,
                "release_order": "fifo", "grid": {"shipped": inp["file"], "sym": inp["sym"], "mirror_y": inp["mirror_y"], "ne": ne}}
    if g % 12 == 6:
        # boundary values of the WKT reader (it stores y as 1024 - y): an axis-parallel regular lattice,
        # integer-like coordinates, placed so that it straddles y = 1024 (row on the line / line mid-row)
        k = ((g // 12) * 37 + base * 101) % 288     # scrambled: a short run spreads over all parameters
        sc = [6.0, 10.0, 24.0][k % 3]
        ny = [2, 3, 4][(k // 3) % 3]
        spec = {"kind": "voronoi", "lattice": "quad", "nx": [2, 3][(k // 9) % 2], "ny": ny, "sseed": base, "jitter": 0.0,
                "keep": None, "pts": {"mode": "const", "k": [0, 2, 3, 5][(k // 18) % 4]}, "bulge": 0.0, "straight_frac": 1.0,
                "scale": sc, "rot": 0.0, "shift": [3 * sc, [0.0, sc / 2, 1024.0, 1024.0 + sc / 2][(k // 72) % 4]],   # text y = 1024 - y: both lines matter
                "orient": ["ccw", "cw", "mixed"][k % 3], "ids": "contig0"}
        ne = [2, 3, 6][(k // 2) % 3]
        steps = [{"op": "parse", "slot": 0, "input": 0}, {"op": "generate_mesh", "slot": 0, "ne": ne, "rse": False},
                 {"op": "frame", "slot": 0, "gt": False, "keep": False}]
        return {"kind": "mesh", "prop": prop, "config": "grid", "seed": seed, "steps": steps, "release_order": "fifo",
                "inputs": [{"kind": "voronoi", "spec": spec, "path": "wkt"}],
                "grid": {"wkt_boundary": k % 288, "scale": sc, "ny": ny, "ne": ne}}
    tissue_no, cell = divmod(g, GRID_SIZE)
    ne = GRID_NE[cell % len(GRID_NE)]
    if prop == "C09" and ne < 2:
        ne = 2   # C09 quantifies over ne = 2..12
    flag = GRID_FLAG[(cell // len(GRID_NE)) % len(GRID_FLAG)]
    ret = GRID_RETAIN[cell // (len(GRID_NE) * len(GRID_FLAG))]
    r_in = R.stream(base * 1_000_000 + tissue_no, "grid-input")
    spec = TS.random_spec(r_in, max_side=3 if tier == "quick" else 4, kmax=14)
    path = r_in.choice(["direct", "se", "wkt"])
    inp = {"kind": "voronoi", "spec": spec, "path": path}
    if path == "se":
        inp["se_opts"] = {"wrap": 10, "orphans": 0, "drop_faces": 0, "seed": 0}
    steps = [{"op": "parse", "slot": 0, "input": 0}]
    if ret:
        steps.append({"fault": "retain", "slot": 0, "kind": ret, "picks": [0.5]})
    gm = {"op": "generate_mesh", "slot": 0, "ne": ne, "rse": flag}
    steps += [gm, dict(gm), {"op": "frame", "slot": 0, "gt": False, "keep": False}]
    if ret:
        steps.append({"fault": "release", "handle": 0})
    return {"kind": "mesh", "prop": prop, "config": "grid", "seed": seed, "inputs": [inp], "steps": steps,
            "release_order": "fifo", "grid": {"tissue": tissue_no, "ne": ne, "flag": flag, "retain": ret}}


def gen_trace(seed, config, prop, tier):
    if config == "grid":
        return gen_grid_trace(seed, prop, tier)
    r_in = R.stream(seed, "input")
    r_op = R.stream(seed, "ops")
    r_f = R.stream(seed, "faults")
    n_inputs = 1 if r_in.random() < 0.75 else 2
    inputs = [gen_input(r_in, tier, prop) for _ in range(n_inputs)]
    steps = []
    for s in range(n_inputs):
        steps.append({"op": "parse", "slot": s, "input": s, "same_parser": True})
    nops = r_op.randint(3, 9)
    ne_lo = 1 if prop == "C11" else 2
    # swarm: per-run enabled fault kinds and rates
    kinds_A = [k for k in ("gc", "gc_inside") if r_f.random() < 0.7] if config in ("A", "AB") else []
    kinds_B = [k for k in ("edge_last", "edge_pick", "edge_junction", "edges_all", "cell_pick", "cells_all")
               if r_f.random() < 0.5] if config == "AB" else []
    if config == "AB" and not kinds_B:
        kinds_B = ["edge_last"]
    p_fault = r_f.choice([0.15, 0.3, 0.5])
    open_handles = 0
    i = 0
    while i < nops:
        slot = r_op.randrange(n_inputs)
        op = R.choice_w(r_op, [("generate_mesh", 58), ("frame", 24), ("parse", 10), ("reduce_amount", 3),
                               ("generate_mesh_pair", 22 if prop == "C11" else 8)])
        destructive = op in ("generate_mesh", "generate_mesh_pair", "parse", "reduce_amount")
        # faults are placed inside the window that matters: right before a destructive op
        if destructive and kinds_B and r_f.random() < p_fault * 1.5:
            k = r_f.choice(kinds_B)
            steps.append({"fault": "retain", "slot": slot, "kind": k,
                          "picks": [round(r_f.random(), 4) for _ in range(r_f.randint(1, 4))]})
            open_handles += 1
        if destructive and "gc_inside" in kinds_A and r_f.random() < p_fault:
            steps.append({"fault": "gc_inside", "at": int(10 ** r_f.uniform(0, 4.3))})
        if op == "generate_mesh" or op == "generate_mesh_pair":
            # small ne is where the boundary conditions of the resampler live: bias towards it
            ne = R.choice_w(r_op, [(1, 6 if ne_lo == 1 else 0), (2, 18), (3, 14), (4, 10), (r_op.randint(5, 12), 52)])
            st = {"op": "generate_mesh", "slot": slot, "ne": ne, "rse": r_op.random() < 0.5}
            if r_op.random() < 0.1:
                st["rse"] = None  # keyword not given: library default
            if r_op.random() < 0.06:
                st["ne"] = None   # keyword not given: library default (4)
            if r_op.random() < 0.08:
                st["rse"] = 1 if st["rse"] else 0      # truthy / falsy instead of a bool
            if r_op.random() < 0.08:
                st["ne_np"] = True                      # ne handed over as a numpy integer
            steps.append(st)
            if op == "generate_mesh_pair":
                steps.append(dict(st))
                i += 1
        elif op == "frame":
            steps.append({"op": "frame", "slot": slot, "gt": r_op.random() < 0.5, "keep": r_op.random() < 0.6})
        elif op == "parse":
            steps.append({"op": "parse", "slot": slot, "input": r_op.randrange(n_inputs),
                          "same_parser": r_op.random() < 0.5})
        else:
            steps.append({"op": "reduce_amount", "slot": slot})
        if "gc" in kinds_A and r_f.random() < p_fault:
            steps.append({"fault": "gc"})
        if open_handles and r_f.random() < 0.4:
            steps.append({"fault": "release", "handle": r_f.randrange(8)})
        i += 1
    return {"kind": "mesh", "prop": prop, "config": config, "seed": seed, "inputs": inputs, "steps": steps,
            "release_order": r_f.choice(["fifo", "lifo"])}


# ------------------------------------------------------------------ executor
class Slot:
    __slots__ = ("mesh", "dead", "frames", "origin", "last_gm", "tainted", "zone", "parser")

    def __init__(self):
        self.mesh = None
        self.dead = False
        self.frames = []
        self.origin = None
        self.last_gm = None   # (ne, rse, post snapshot) of the last successful generate_mesh
        self.tainted = False  # a C09 violation was reported on this mesh: nothing later is judged on it
        self.zone = None      # (cells, vertices) a merge cascade of the last generate_mesh could touch
        self.parser = {}      # input index -> {"obj": parser object} kept by the caller between parses


def _build_input(fs, inp, name, keep=None):
    k = inp["kind"]
    if k == "voronoi":
        T = TS.build_tissue(inp["spec"])
        if inp["path"] == "direct":
            return P.build_direct(fs, T)
        if inp["path"] == "se":
            return P.build_se(fs, T, name, inp.get("se_opts"))
        return P.build_wkt(fs, T)
    if k == "tess":
        return P.build_tess(fs, inp["sites"], inp.get("max_distance", 75))
    if k == "file_se":
        return P.build_se_file(fs, os.path.join(shipped.REPO, inp["file"]))
    if k in ("image", "raster"):
        data = shipped.image_bytes(inp)
        return P.build_skeleton(fs, data, inp.get("mirror_y", False), inp.get("reduce_amount", False),
                                inp.get("rescale"), inp.get("offset"), keep)
    raise ValueError(k)


def _pick_retain(mesh, kind, picks):
    """-> list of objects to keep alive (the caller's variables)."""
    vertices, edges, cells = mesh
    if kind.startswith("edge"):
        if not edges:
            return [], []
        keys = list(edges)
        if kind == "edge_last":
            sel = [keys[-1]]
        elif kind == "edges_all":
            sel = keys
        elif kind == "edge_junction":
            cand = [k for k in keys if len(edges[k].v1.ownEdges) >= 3 or len(edges[k].v2.ownEdges) >= 3] or keys
            sel = sorted({cand[int(p * len(cand)) % len(cand)] for p in picks})
        else:
            sel = sorted({keys[int(p * len(keys)) % len(keys)] for p in picks})
        return [edges[k] for k in sel], [("edge", k) for k in sel]
    if not cells:
        return [], []
    keys = list(cells)
    if kind == "cells_all":
        sel = keys
    else:
        sel = sorted({keys[int(p * len(keys)) % len(keys)] for p in picks})
    return [cells[k] for k in sel], [("cell", k) for k in sel]


def _exc_class(e):
    return type(e).__name__


def run_trace(fs, trace, flog, preempt, collect_states=False):
    """Execute one trace. Returns a plain-data result."""
    import forsys.exceptions as fexc
    h = hashlib.sha256()
    log = []
    violations = []
    stats = {"ops": {}, "faults_configured": {}, "faults_fired": {}, "probes": {}, "outcomes": {},
             "finalizers": {}, "unraisable": 0, "steps_ok": 0, "oracle_evals": {"C09": 0, "C11": 0}}
    states = set()
    slots = {}
    handles = []     # each: dict(objs=[...], ids=[...], slot=..., born=step)
    pend_gc_inside = None
    inputs = trace["inputs"]

    def probe(name, n=1):
        stats["probes"][name] = stats["probes"].get(name, 0) + n

    def bump(d, k, n=1):
        stats[d][k] = stats[d].get(k, 0) + n

    def emit(*parts):
        line = " ".join(str(p) for p in parts)
        log.append(line)
        h.update(line.encode())
        h.update(b"\n")

    def check_all(idx, phase, op):
        for sid in sorted(slots):
            sl = slots[sid]
            if sl.mesh is None or sl.dead or sl.tainted:
                continue
            vs = MO.check_mesh(*sl.mesh)
            stats["oracle_evals"]["C09"] += 1
            for v in vs:
                rec = {"prop": "C09", "inv": v["inv"], "step": idx, "op": op, "phase": phase,
                       "slot": sid, "detail": v}
                if sl.zone is not None and sl.zone[0] == "dup-pairs":
                    if v.get("pair") and frozenset(v["pair"]) in sl.zone[1]:
                        rec["cause"] = "reduce-amount-two-junction-cell"
                elif sl.zone is not None and sl.zone[0] == "inner-triangle":
                    if v["inv"] == "I5" and v.get("pair") and any(x in sl.zone[1] for x in v["pair"]):
                        rec["cause"] = "skeleton-inner-triangle"
                elif sl.zone is not None:
                    zc, zv = sl.zone
                    if v.get("cell") in zc or v.get("vertex") in zv or \
                            (v.get("pair") and any(x in zv for x in v["pair"])):
                        rec["cause"] = "merge-cascade"
                violations.append(rec)
            if vs:
                sl.tainted = True   # garbage in from here on: only the first observation counts
            for ln in MO.mesh_digest_lines(*sl.mesh):
                h.update(ln.encode())
                h.update(b"\n")

    gc.collect()
    gc.disable()
    flog.reset()
    with seams.Unraisable() as unr:
        for idx, st in enumerate(trace["steps"]):
            if "fault" in st:
                f = st["fault"]
                bump("faults_configured", f if f != "retain" else "retain:" + st["kind"])
                flog.phase = "fault"
                if f == "gc":
                    n = gc.collect()
                    emit(idx, "gc", n)
                    if n:
                        bump("faults_fired", "gc:collected-something")
                elif f == "gc_inside":
                    pend_gc_inside = st["at"]
                    emit(idx, "gc_inside-armed", st["at"])
                    continue
                elif f == "retain":
                    ks = sorted(slots)
                    if not ks:
                        emit(idx, "retain", "noop")
                        continue
                    sid = ks[st["slot"] % len(ks)]
                    sl = slots[sid]
                    if sl.mesh is None or sl.dead:
                        emit(idx, "retain", "noop")
                        continue
                    objs, ids = _pick_retain(sl.mesh, st["kind"], st.get("picks", [0.5]))
                    handles.append({"objs": objs, "ids": ids, "slot": sid, "born": idx, "kind": st["kind"],
                                    "crossed": False})
                    emit(idx, "retain", st["kind"], len(objs))
                    del objs
                    continue
                elif f == "release":
                    if not handles:
                        emit(idx, "release", "noop")
                        continue
                    hd = handles.pop(st["handle"] % len(handles))
                    before = dict(flog.counts)
                    n = len(hd["objs"])
                    hd["objs"] = None
                    late = sum(flog.counts.get(k, 0) - before.get(k, 0) for k in ("edge:late", "cell:late"))
                    emit(idx, "release", hd["kind"], n, "finalized", late)
                    if late:
                        bump("faults_fired", "release:finalized-late", 1)
                    del hd
                flog.phase = "idle"
                check_all(idx, "after-fault:" + f, f)
                continue

            op = st["op"]
            bump("ops", op)
            outcome = "ok"
            if op == "parse":
                sid = st["slot"]
                inp = inputs[st["input"] % len(inputs)]
                sl = slots.get(sid)
                if sl is None:
                    sl = slots[sid] = Slot()
                at = pend_gc_inside
                pend_gc_inside = None
                mesh = None
                flog.phase = "call"
                try:
                    keep = None
                    if st.get("same_parser"):
                        keep = sl.parser.setdefault(st["input"] % len(inputs), {})
                        if keep.get("obj") is not None:
                            probe("reparse-with-the-same-parser-object")
                    with seams.quiet() as out, preempt.during(at):
                        mesh = _build_input(fs, inp, f"mem:{sid}", keep)
                    noise = len(out.getvalue())
                except Exception as e:  # parser failed: no mesh
                    outcome = "exc:" + _exc_class(e)
                    noise = 0
                flog.phase = "idle"
                if at is not None and preempt.fired:
                    bump("faults_fired", "gc_inside:ran-inside-call")
                    if preempt.collected:
                        bump("faults_fired", "gc_inside:collected-something")
                for hd in handles:
                    if hd["slot"] == sid:
                        hd["crossed"] = True
                # caller rebinds its names: the old mesh dies now
                sl.mesh = mesh
                sl.frames = []
                sl.dead = mesh is None
                sl.origin = inp["kind"] + ":" + inp.get("path", "")
                sl.last_gm = None
                sl.tainted = False
                sl.zone = None
                del mesh
                emit(idx, "parse", sid, inp["kind"], inp.get("path", ""), outcome, noise)
                if not sl.dead:
                    probe("parsed:" + sl.origin)
                sl.zone = None
                if not sl.dead and inp["kind"] in ("raster", "image") and not inp.get("reduce_amount") \
                        and MO.check_mesh(*sl.mesh):
                    # facts for the cause class 'skeleton-inner-triangle': the skeleton parser numbers pixels
                    # consecutively; an id that is missing afterwards and was not merged by a T3 transition was
                    # deleted by the inner-triangle (or isolated-cell) clean-up; its contour neighbours are the zone
                    from . import engine as _eng
                    t3 = set(_eng.get()["probes"].t3_removed)
                    ids = set(sl.mesh[0])
                    top = max([i for i in ids if i not in t3] or [0])
                    missing = {i for i in range(top) if i not in ids and i not in t3}
                    if missing and len(missing) <= 12:
                        sl.zone = ("inner-triangle", {m + d for m in missing for d in (-2, -1, 1, 2)})
                elif not sl.dead and inp["kind"] in ("raster", "image") and inp.get("reduce_amount") \
                        and MO.check_mesh(*sl.mesh):
                    # facts for the cause class 'reduce-amount-two-junction-cell': the same image parsed
                    # without the collinear-point reduction is consistent and has junction pairs joined by
                    # two or more interfaces (a cell with exactly two junctions)
                    sl.zone = _dup_pair_zone(fs, inp, f"mem:{sid}")
            elif op in ("generate_mesh", "frame", "reduce_amount"):
                ks = sorted(slots)
                sl = slots[ks[st["slot"] % len(ks)]] if ks else None
                sid = ks[st["slot"] % len(ks)] if ks else None
                if sl is None or sl.mesh is None or sl.dead:
                    emit(idx, op, "noop")
                    pend_gc_inside = None
                    continue
                at = pend_gc_inside
                pend_gc_inside = None
                if op == "generate_mesh":
                    pre = MO.snapshot(*sl.mesh)
                    an = RO.analyse(pre)
                    kwargs = {"ne": st["ne"]} if st.get("ne") is not None else {}
                    if st.get("ne_np") and "ne" in kwargs:
                        import numpy as _np
                        kwargs["ne"] = _np.int64(kwargs["ne"])
                    st = dict(st, ne=st["ne"] if st.get("ne") is not None else 4)
                    if st.get("rse") is not None:
                        kwargs["replace_short_edges"] = st["rse"]
                    flag = True if st.get("rse") is None else bool(st["rse"])
                    res = None
                    exc_name = None
                    flog.phase = "call"
                    try:
                        with seams.quiet() as out, preempt.during(at):
                            res = fs.virtual_edges.generate_mesh(*sl.mesh, **kwargs)
                    except Exception as e:
                        exc_name = _exc_class(e)
                        outcome = "exc:" + exc_name
                    flog.phase = "idle"
                    for hd in handles:
                        if hd["slot"] == sid:
                            hd["crossed"] = True
                    merging = flag and st["ne"] >= 2
                    if res is None:
                        sl.mesh = None
                        sl.dead = True
                        sl.last_gm = None
                        # G6 crash rule on the sub-domain where merging cannot trigger
                        if (not merging or not an["contractible"]) and exc_name != "SegmentationArtifactException" \
                                and not an["degenerate"] and not sl.tainted \
                                and not (st["ne"] < 3 and any(p[0] == p[-1] for p in an["interfaces"])) \
                                and not MO.check_mesh_snapshot_inconsistent(pre):
                            violations.append({"prop": "C11", "inv": "G6", "step": idx, "op": op, "phase": "call",
                                               "slot": sid, "detail": {"inv": "G6", "what": "generate_mesh raised on a mesh where merging cannot trigger",
                                                                       "exception": exc_name, "ne": st["ne"], "flag": flag}})
                    else:
                        sl.mesh = (res[0], res[1], res[2])   # README-style rebinding
                        sl.frames = []
                        nE = res[3]
                        del res
                        post = MO.snapshot(*sl.mesh)
                        sl.zone = _cascade_zone(pre, post, an) if merging else None
                        if sl.tainted:
                            vs, info = [], {"contractible": 0, "isolated": 0, "cascade": False, "shortened": 0,
                                            "interfaces": len(an["interfaces"])}
                        elif an["degenerate"]:
                            # two-vertex cells / parallel edges (left by an earlier contraction of a
                            # triangle side): the statement does not say how they are represented
                            vs, info = [], {"contractible": 0, "isolated": 0, "cascade": False, "shortened": 0,
                                            "interfaces": len(an["interfaces"])}
                            probe("c11-skipped:degenerate-pre-mesh")
                        else:
                            vs, info = RO.check_resample(pre, post, st["ne"], flag, an)
                            stats["oracle_evals"]["C11"] += 1
                        for v in vs:
                            rec = {"prop": "C11", "inv": v["inv"], "step": idx, "op": op, "phase": "call",
                                   "slot": sid, "detail": v, "ne": st["ne"], "flag": flag}
                            if sl.zone is not None and _in_zone(v, sl.zone):
                                rec["cause"] = "merge-cascade"
                            violations.append(rec)
                        if info["shortened"]:
                            probe("resample:shortened-some")
                        else:
                            probe("resample:left-all-unchanged")
                        if merging and info["isolated"]:
                            probe("merge:isolated-contraction")
                        if merging and info["cascade"]:
                            probe("merge:cascade")
                        if len(post["c"]) < len(pre["c"]):
                            probe("empty-cell-removal")
                        # G5 idempotence on a repeated identical call
                        lg = sl.last_gm
                        if lg is not None and lg[0] == st["ne"] and lg[1] == flag and not an["degenerate"] \
                                and not sl.tainted:
                            an2 = an  # analysis of the intermediate mesh
                            if (not merging) or not an2["contractible"]:
                                stats["oracle_evals"]["C11"] += 1
                                probe("idempotence-checked")
                                for d in RO.same_mesh(lg[2], post):
                                    violations.append({"prop": "C11", "inv": "G5", "step": idx, "op": op, "phase": "call",
                                                       "slot": sid, "detail": {"inv": "G5", **d}, "ne": st["ne"], "flag": flag})
                            else:
                                probe("idempotence-skipped:contractible-left")
                        # G5 only relates two calls that were both made on a judged (non-degenerate) mesh
                        sl.last_gm = (st["ne"], flag, post) if not an["degenerate"] else None
                        if collect_states:
                            states.add(("gm", sl.origin, _bucket(len(post["c"])), _bucket(len(an["junc"])),
                                        info["cascade"], min(3, info["isolated"]), bool(info["shortened"]),
                                        st["ne"], flag, len(handles) > 0))
                    emit(idx, op, sid, st["ne"], flag, outcome)
                elif op == "frame":
                    fr = None
                    flog.phase = "call"
                    try:
                        with seams.quiet() as out, preempt.during(at):
                            fr = fs.frames.Frame(0, *sl.mesh, time=0.0, gt=st.get("gt", False))
                    except Exception as e:
                        outcome = "exc:" + _exc_class(e)
                    flog.phase = "idle"
                    if fr is not None:
                        probe("frame-built")
                        if st.get("keep"):
                            sl.frames.append(fr)
                        nint = len(fr.internal_big_edges)
                        emit(idx, op, sid, outcome, len(fr.big_edges), nint)
                        if collect_states:
                            states.add(("frame", sl.origin, _bucket(len(fr.big_edges)), _bucket(nint)))
                        del fr
                    else:
                        emit(idx, op, sid, outcome)
                else:  # reduce_amount
                    flog.phase = "call"
                    res = None
                    try:
                        with seams.quiet() as out, preempt.during(at):
                            res = fs.wkt.reduce_amount(*sl.mesh)
                    except Exception as e:
                        outcome = "exc:" + _exc_class(e)
                    flog.phase = "idle"
                    for hd in handles:
                        if hd["slot"] == sid:
                            hd["crossed"] = True
                    if res is None:
                        sl.mesh = None
                        sl.dead = True
                    else:
                        sl.mesh = tuple(res)
                        del res
                    sl.last_gm = None
                    emit(idx, op, sid, outcome)
                if at is not None and preempt.fired:
                    bump("faults_fired", "gc_inside:ran-inside-call")
                    if preempt.collected:
                        bump("faults_fired", "gc_inside:collected-something")
            else:
                emit(idx, op, "unknown-op")
                continue
            bump("outcomes", op + ":" + outcome)
            if outcome == "ok":
                stats["steps_ok"] += 1
            check_all(idx, "after-step", op)

        # quiescence: faults stop; all retained references are released, a final collect runs
        flog.phase = "fault"
        nsteps = len(trace["steps"])
        crossed = sum(1 for hd in handles if hd["crossed"])
        if crossed:
            bump("faults_fired", "retain:held-across-destructive-call", crossed)
        order = trace.get("release_order", "fifo")
        while handles:
            hd = handles.pop(0 if order == "fifo" else -1)
            hd["objs"] = None
            del hd
            check_all(nsteps, "quiescence:release", "release")
        n = gc.collect()
        emit("final-gc", n)
        flog.phase = "idle"
        check_all(nsteps, "quiescence:final", "final-gc")
        stats["unraisable"] = len(unr.items)
        for it in unr.items[:5]:
            emit("unraisable", *it)
        stats["unraisable_samples"] = [list(it) for it in unr.items[:3]]
    stats["finalizers"] = dict(flog.counts)
    if flog.counts.get("edge:in-gc", 0) + flog.counts.get("cell:in-gc", 0):
        bump("faults_fired", "gc:finalizer-ran-inside-collector")
    # drop everything, then collect so that the next run in this worker starts clean
    slots.clear()
    gc.collect()
    gc.enable()
    return {"digest": h.hexdigest(), "violations": violations, "stats": stats, "log": log,
            "states": sorted(map(repr, states)) if collect_states else []}


def _dup_pair_zone(fs, inp, name):
    """-> ("dup-pairs", {frozenset(end pair)}) for the image parsed WITHOUT reduce_amount, or None."""
    try:
        plain = dict(inp, reduce_amount=False)
        with seams.quiet():
            m0 = _build_input(fs, plain, name)
        if MO.check_mesh(*m0):
            return None
        an = RO.analyse(MO.snapshot(*m0))
        cnt = {}
        for p in an["interfaces"]:
            if p[0] != p[-1]:
                k = frozenset((p[0], p[-1]))
                cnt[k] = cnt.get(k, 0) + 1
        dup = {k for k, n in cnt.items() if n >= 2}
        return ("dup-pairs", dup) if dup else None
    except Exception:
        return None


def _in_zone(v, zone):
    if zone[0] in ("dup-pairs", "inner-triangle"):
        return False
    zc, zv = zone
    if v.get("cell") in zc or v.get("vertex") in zv:
        return True
    for key in ("cells",):
        if v.get(key) and any(c in zc for c in v[key]):
            return True
    for key in ("interface", "pair", "vertices"):
        if v.get(key) and any(x in zv for x in v[key] if not isinstance(x, str)):
            return True
    return False


def _cascade_zone(pre, post, an):
    """Cells and vertices that contractions sharing a vertex (a cascade) can touch: the cells
    around the cascading vertices, all their vertices, and every vertex the call created."""
    K = an["contractible"]
    touch = {}
    for p in K:
        for v in p:
            touch[v] = touch.get(v, 0) + 1
    casc = {v for p in K if touch[p[0]] > 1 or touch[p[1]] > 1 for v in p}
    if not casc:
        return None
    zc = {cid for cid, cyc in pre["c"].items() if any(v in casc for v in cyc)}
    zv = {v for cid in zc for v in pre["c"][cid]}
    zv |= {v for v, xy in post["v"].items() if pre["v"].get(v) != xy}
    return zc, zv


def _bucket(n):
    if n <= 0:
        return 0
    return 1 << int(math.log2(n))


# ------------------------------------------------------------------ operand / input simplification
def simplifications(trace):
    """Yield simpler variants of a trace (one change each), simplest first."""
    import copy
    # fewer inputs
    used = sorted({s["input"] % len(trace["inputs"]) for s in trace["steps"] if s.get("op") == "parse"})
    if len(used) < len(trace["inputs"]) and used:
        t = copy.deepcopy(trace)
        t["inputs"] = [trace["inputs"][i] for i in used]
        for s in t["steps"]:
            if s.get("op") == "parse":
                s["input"] = used.index(s["input"] % len(trace["inputs"]))
        yield t
    for i, s in enumerate(trace["steps"]):
        if s.get("op") == "generate_mesh":
            if s.get("rse") in (True, None):
                t = copy.deepcopy(trace)
                t["steps"][i]["rse"] = False
                yield t
            for ne in (2, 3, 4):
                if s.get("ne") is not None and s["ne"] > ne:
                    t = copy.deepcopy(trace)
                    t["steps"][i]["ne"] = ne
                    yield t
        if s.get("fault") == "retain" and s["kind"] != "edge_last":
            t = copy.deepcopy(trace)
            t["steps"][i]["kind"] = "edge_last"
            yield t
        if s.get("fault") == "retain" and len(s.get("picks", [])) > 1:
            t = copy.deepcopy(trace)
            t["steps"][i]["picks"] = s["picks"][:1]
            yield t
    for k, inp in enumerate(trace["inputs"]):
        if inp["kind"] == "voronoi":
            sp = inp["spec"]
            if inp["path"] != "direct":
                t = copy.deepcopy(trace)
                t["inputs"][k]["path"] = "direct"
                t["inputs"][k].pop("se_opts", None)
                yield t
            for key in ("orphans", "drop_faces"):
                if inp.get("se_opts", {}).get(key):
                    t = copy.deepcopy(trace)
                    t["inputs"][k]["se_opts"][key] = 0
                    yield t
                    if inp["se_opts"][key] > 1:
                        t = copy.deepcopy(trace)
                        t["inputs"][k]["se_opts"][key] = 1
                        yield t
            # fewer points per interface
            pm = sp.get("pts", {})
            for kk in (0, 1, 2, 4):
                if pm.get("mode") != "const" or pm.get("k", 0) > kk:
                    t = copy.deepcopy(trace)
                    t["inputs"][k]["spec"]["pts"] = {"mode": "const", "k": kk}
                    if _spec_builds(t["inputs"][k]["spec"]):
                        yield t
            # fewer cells: drop cells from the mask while it stays connected
            keep = sp.get("keep") or list(range(sp["nx"] * sp["ny"]))
            if len(keep) > 1:
                for c in list(keep):
                    nk = [x for x in keep if x != c]
                    t = copy.deepcopy(trace)
                    t["inputs"][k]["spec"]["keep"] = nk
                    if _spec_builds(t["inputs"][k]["spec"]):
                        yield t
            for key, val in (("bulge", 0.0), ("rot", 0.0), ("orient", "ccw"), ("ids", "contig0"),
                             ("shift", [0.0, 0.0])):
                if sp.get(key) != val:
                    t = copy.deepcopy(trace)
                    t["inputs"][k]["spec"][key] = val
                    if _spec_builds(t["inputs"][k]["spec"]):
                        yield t
        if inp["kind"] == "tess" and len(inp["sites"]) > 6:
            for j in range(len(inp["sites"])):
                t = copy.deepcopy(trace)
                t["inputs"][k]["sites"] = inp["sites"][:j] + inp["sites"][j + 1:]
                yield t
        if inp["kind"] == "image":
            for key, val in (("sym", 0), ("pad", 0), ("mirror_y", False)):
                if inp.get(key) != val:
                    t = copy.deepcopy(trace)
                    t["inputs"][k][key] = val
                    yield t
            if inp.get("window") and inp["window"][2] > 140:
                t = copy.deepcopy(trace)
                t["inputs"][k]["window"][2] = 140
                yield t


def _spec_builds(spec):
    try:
        if not TS.spec_ok(spec):
            return False
        TS.build_tissue(spec)
        return True
    except Exception:
        return False
