#!/bin/bash
# verify_seeded.sh <dir>: apply <dir>/patch.diff to a scratch copy of /repo outside /repo and /verif,
# run the repository test suite and the demonstration on the changed and on the original tree.
set -u
D=$(realpath "$1")
S=$(mktemp -d /dev/shm/seedchk-XXXX)
trap 'rm -rf "$S"' EXIT
mkdir -p $S/orig $S/mut
cp -r /repo/forsys $S/orig/forsys; cp -r /repo/forsys $S/mut/forsys
for x in tests examples; do ln -s /repo/$x $S/orig/$x; ln -s /repo/$x $S/mut/$x; done
(cd $S/mut && git apply --unsafe-paths --directory=$S/mut "$D/patch.diff") || { echo "PATCH-DOES-NOT-APPLY"; exit 3; }
echo "changed files: $(cd $S && diff -rq orig/forsys mut/forsys | wc -l)"
(cd $S/mut && PYTHONDONTWRITEBYTECODE=1 PYTHONPATH=$S/mut /venv/bin/python -m pytest -q -p no:cacheprovider --timeout=900 -n 8 2>&1 | tail -1)
(cd $S/mut && PYTHONDONTWRITEBYTECODE=1 PYTHONPATH=$S/mut cp "$D/demo.py" $S/mut/demo.py; timeout 600 /venv/bin/python $S/mut/demo.py > $S/mut.out 2>&1; echo "demo on changed tree: exit $? $(tail -1 $S/mut.out | cut -c1-120)")
(cd $S/orig && PYTHONDONTWRITEBYTECODE=1 PYTHONPATH=$S/orig cp "$D/demo.py" $S/orig/demo.py; timeout 600 /venv/bin/python $S/orig/demo.py > $S/orig.out 2>&1; echo "demo on original tree: exit $? $(tail -1 $S/orig.out | cut -c1-120)")
