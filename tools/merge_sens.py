#!/usr/bin/env python3
"""merge_sens.py <base.json> <partial.json>...: merge the results of filtered `./check selftest sensitivity <name>` runs
into a full evidence/sensitivity.json (a filtered run rewrites the file with only the patches it ran)."""
import json, os, sys
here = os.path.dirname(os.path.dirname(os.path.abspath(__file__)))
base = json.load(open(sys.argv[1]))["results"]
by = {r["mutant"]: r for r in base}
order = [r["mutant"] for r in base]
for p in sys.argv[2:]:
    for r in json.load(open(p))["results"]:
        if r["mutant"] not in by:
            order.append(r["mutant"])
        by[r["mutant"]] = r
order.sort(key=lambda n: (n.startswith("seeded/"), n))
json.dump({"results": [by[n] for n in order]}, open(os.path.join(here, "evidence", "sensitivity.json"), "w"), indent=1)
print(len(order), "results")
