#!/usr/bin/env python3
"""Replace the block between the SENS-TABLE markers of DESIGN.md by the table of the last
./check selftest sensitivity run (evidence/sensitivity.json)."""
import json, os, re, subprocess, sys
here = os.path.dirname(os.path.dirname(os.path.abspath(__file__)))
tab = subprocess.run([sys.executable, os.path.join(here, "tools", "sens_table.py")], capture_output=True, text=True).stdout
d = json.load(open(os.path.join(here, "evidence", "sensitivity.json")))["results"]
req = [r for r in d if r.get("expect", "caught") == "caught"]
head = (f"Last full run of `./check selftest sensitivity` on the final tree (quick tier, base seed 0): {len(d)} patches, "
        f"{sum(1 for r in req if r['caught'])} of {len(req)} that are expected to be caught are caught, every replay fails on the changed tree and passes "
        f"on the unchanged tree; the other {len(d) - len(req)} are tagged equivalent / outside-domain / neutralised-by-fix / missed-capacity and explained above.\n\n")
p = os.path.join(here, "DESIGN.md")
s = open(p).read()
a = s.index("<!-- SENS-TABLE-START -->") + len("<!-- SENS-TABLE-START -->")
b = s.index("<!-- SENS-TABLE-END -->")
open(p, "w").write(s[:a] + "\n" + head + tab + s[b:])
print("inserted", len(d), "rows")
