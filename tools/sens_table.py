#!/usr/bin/env python3
"""Print a markdown table from evidence/sensitivity.json (written by ./check selftest sensitivity)."""
import json, os, re, sys
here = os.path.dirname(os.path.dirname(os.path.abspath(__file__)))
d = json.load(open(os.path.join(here, "evidence", "sensitivity.json")))
print("| patch | property | expected | quick tier | invariant (first violation) | seed / config | replay fails on changed tree / passes on unchanged | s |")
print("|---|---|---|---|---|---|---|---|")
for r in d["results"]:
    w = (r.get("what") or [""])[0]
    m = re.search(r"signature=\['(\w+)', '(\w+)', '(\w+)', '([\w-]+)'\] seed=(\d+) config=(\w+)", w)
    sig = f"{m.group(2)} at {m.group(3)}" if m else ""
    sc = f"{m.group(5)} / {m.group(6)}" if m else ""
    print(f"| {r['mutant'].replace('.patch','')} | {r['property']} | {r.get('expect','caught')} | {'caught' if r['caught'] else 'not caught'} | {sig} | {sc} | "
          f"{'yes / yes' if r.get('replay_reproduces') and r.get('replay_clean_on_unchanged_tree') else ('-' if not r['caught'] else 'NO')} | {r['wall_s']} |")
