#!/venv/bin/python
"""Generate /verif/mutants/*.patch from (file, old, new) edits against the current /repo tree,
and optionally check that each mutant still passes the repository's test suite.
Usage: tools/make_mutants.py [--pytest]"""
import os, shutil, subprocess, sys, tempfile

REPO = "/repo"
OUT = os.path.join(os.path.dirname(os.path.dirname(os.path.abspath(__file__))), "mutants")

M = []
def mut(name, prop, edits, note="", expect="caught"):
    M.append((name, prop, edits, note, expect))

# ---------------------------------------------------------------- C09
TESTS_CATCH_IT = ("c09_cell_replace_vertex_forgets_add_cell", "C09", [("forsys/cell.py",
    "            self.vertices[vertices_ids.index(vold.id)] = vnew\n            # add cell to vertex\n            vnew.add_cell(self.id)\n",
    "            self.vertices[vertices_ids.index(vold.id)] = vnew\n")],
    "merged vertex does not list its cells (only vertex merging paths)")
mut("c09_edge_replace_vertex_forgets_array", "C09", [("forsys/edge.py",
    "        self.verticesArray[who] = vnew\n        self.verticesArray[who].add_edge(self.id)\n",
    "        vnew.add_edge(self.id)\n")],
    "verticesArray keeps the old end: a later unregister removes the id from the wrong vertex")
TESTS_CATCH_IT = ("c09_generate_mesh_new_dict_without_clear", "C09", [("forsys/virtual_edges.py",
    "    for old_edge in edges.values():\n        old_edge.unregister()\n    edges.clear()\n",
    "")],
    "old edges die only when the caller rebinds: new ids are refused, then unregistered")
mut("c09_unregister_not_idempotent", "C09", [("forsys/edge.py",
    "                v.remove_edge(self.id)\n        self.verticesArray = []\n",
    "                v.remove_edge(self.id)\n")],
    "late finalizer of a retained old edge unregisters the re-issued id (needs a retained reference)")
mut("c09_join_relies_on_finalizer", "C09", [("forsys/virtual_edges.py",
    "    edges.pop(common_edge).unregister()\n", "    del edges[common_edge]\n")],
    "equivalent under the quantified API: the contracted edge is created inside the same generate_mesh call, so no caller can hold it and CPython finalizes it synchronously; only a direct call of join_two_vertices could tell",
    expect="equivalent")
TESTS_CATCH_IT = ("c09_cell_replace_vertex_never_removes", "C09", [("forsys/cell.py",
    "        if vnew.id in vertices_ids:\n            self.vertices.remove(vold)\n        else:\n            self.vertices[vertices_ids.index(vold.id)] = vnew\n            # add cell to vertex\n            vnew.add_cell(self.id)\n",
    "        self.vertices[vertices_ids.index(vold.id)] = vnew\n        vnew.add_cell(self.id)\n")],
    "cell cycle repeats the merged vertex when both ends of a contracted edge are in the cell")
mut("c09_se_orphan_edges_kept", "C09", [("forsys/surface_evolver.py",
    "                try:\n                    del edges[e] \n                except KeyError:\n                    pass\n",
    "                pass\n")],
    "edges of cell-less vertices stay in the mesh and point to deleted vertices (SE dumps with orphans)")
mut("c09_empty_cell_kept", "C09", [("forsys/virtual_edges.py",
    "        if len(cells[c].vertices) == 0:\n", "        if len(cells[c].vertices) < 0:\n")],
    "cells emptied by resampling stay in the dictionary: no clause of C09 (or C11) forbids an empty cell",
    expect="equivalent")
TESTS_CATCH_IT = ("c09_generate_mesh_keeps_removed_vertex_in_cells", "C09", [("forsys/virtual_edges.py",
    "            for cid in v.ownCells:\n                cells[cid].vertices.remove(v)\n",
    "            for cid in v.ownCells[:1]:\n                cells[cid].vertices.remove(v)\n")],
    "removed points stay in the cycle of the second cell of an interface")
# ---------------------------------------------------------------- C11
TESTS_CATCH_IT = ("c11_round_instead_of_int", "C11", [("forsys/virtual_edges.py",
    "                    nEdge.append(e[int(each * i)])\n", "                    nEdge.append(e[round(each * i)])\n")],
    "round() can pick the last point twice or skip past the order for some len/ne")
mut("c11_ge_instead_of_gt", "C11", [("forsys/virtual_edges.py",
    "        if len(e) > ne:\n", "        if len(e) >= ne:\n")],
    "an interface with exactly ne points is 'resampled' and repeats its end")
TESTS_CATCH_IT = ("c11_drop_last_point", "C11", [("forsys/virtual_edges.py",
    "                nEdge.append(e[-1])\n", "                nEdge.append(e[-1] if len(e) % ne else e[-2])\n")],
    "interfaces whose length is a multiple of ne lose their end junction")
mut("c11_midpoint_one_coordinate", "C11", [("forsys/virtual_edges.py",
    "    y_cm = (v0.y + v1.y) / 2\n", "    y_cm = (v0.y + v0.y) / 2\n")],
    "contracted vertex is not at the midpoint")
mut("c11_contracts_at_three_cell_junction", "C11", [("forsys/virtual_edges.py",
    "                len(vertices[e[0]].ownCells) < 3 and\n", "                len(vertices[e[0]].ownCells) < 4 and\n")],
    "a two-point interface is contracted although one end is shared by three cells")
TESTS_CATCH_IT = ("c11_off_by_one_sampling", "C11", [("forsys/virtual_edges.py",
    "                each = len(e) / ne\n", "                each = (len(e) + 1) / ne\n")],
    "index can run past / duplicate the end for short interfaces")
# ---------------------------------------------------------------- C10
mut("c10_forces_store_overwritten", "C10", [("forsys/forsys.py",
    "        self.forces[when] = self.force_matrices[when].solve(self.mesh, **kwargs)\n",
    "        self.forces = {when: self.force_matrices[when].solve(self.mesh, **kwargs)}\n")],
    "results of other frames vanish from the store")
mut("c10_fix_stress_in_place", "C10", [("forsys/fmatrix.py",
    "            matrix = np.delete(self.matrix, max_index, 1)\n        else:\n            raise(NotImplementedError)\n        \n        mprime = matrix.T @ matrix\n        b = matrix.T @ b\n",
    "            self.matrix = np.delete(self.matrix, max_index, 1)\n        else:\n            raise(NotImplementedError)\n        \n        mprime = self.matrix.T @ self.matrix\n        b = self.matrix.T @ b\n")],
    "stored matrix shrinks (revert of 1dc1e90)")
mut("c10_excluded_keep_old_tension", "C10", [("forsys/fmatrix.py",
    "            if big_edge.get_vertices_ids() not in self.big_edges_to_use:\n",
    "            if False and big_edge.get_vertices_ids() not in self.big_edges_to_use:\n")],
    "revert of c924d50")
mut("c10_circle_center_cache_by_ids", "C10", [("forsys/virtual_edges.py",
    "        xs = [v.x for v in vertices]\n        ys = [v.y for v in vertices]\n\n        if method == \"dlite\":\n            center = dlite_circle_method(xs, ys)\n",
    "        xs = [v.x for v in vertices]\n        ys = [v.y for v in vertices]\n\n        if method == \"dlite\":\n            key = (tuple(v.id for v in vertices), round(xs[0]), round(ys[0]))\n            if key not in _CENTER_CACHE:\n                _CENTER_CACHE[key] = dlite_circle_method(xs, ys)\n            center = _CENTER_CACHE[key]\n"),
    ("forsys/virtual_edges.py",
    "def get_partition(cell_vertex_ids, number_connections):\n",
    "_CENTER_CACHE = {}\n\n\ndef get_partition(cell_vertex_ids, number_connections):\n")],
    "module-level cache of circle centres keyed by vertex ids and a rounded coordinate: stale across frames / sessions that move little")
mut("c10_taubin_ambient_errstate", "C10", [("forsys/virtual_edges.py",
    "                    with np.errstate(all='raise'):\n                        xc, yc, r, sigma = cfit.taubinSVD(zipped_coords)\n",
    "                    xc, yc, r, sigma = cfit.taubinSVD(zipped_coords)\n")],
    "revert of 0f8c781: thread-dependent fallback. Caught (R2) until fix d1144fa made every ForceMatrix build run in raise mode; since then the build that calls the Taubin fit is in raise mode on every thread and this revert no longer changes behaviour",
    expect="neutralised-by-fix")
mut("c10_warm_start_from_previous", "C10", [("forsys/fmatrix.py",
    "                x0_original = kwargs.get(\"initial_condition\", np.ones(len(self.frame.internal_big_edges)))\n",
    "                previous = [be.tension if be.tension > 0 else 1.0 for be in self.frame.internal_big_edges]\n                x0_original = kwargs.get(\"initial_condition\", previous)\n")],
    "lsq warm start from the tensions left by the previous solve")
mut("c10_pressure_store_overwritten", "C10", [("forsys/forsys.py",
    "        self.pressures[when] = self.pressure_matrices[when].solve_system(**kwargs)\n        self.frames[when].assign_pressures(self.pressures[when], self.pressure_matrices[when].mapping_order)\n",
    "        self.pressures = self.pressure_matrices[when].solve_system(**kwargs)\n        self.frames[when].assign_pressures(self.pressures, self.pressure_matrices[when].mapping_order)\n")],
    "revert of 61c095b")
mut("c10_rhs_reused_between_solves", "C10", [("forsys/fmatrix.py",
    "        b = np.zeros((self.matrix.shape[0], 1))\n        b_matrix = kwargs.get(\"b_matrix\", None)\n",
    "        b = np.zeros((self.matrix.shape[0], 1)) if self.velocity_matrix is None else self.velocity_matrix_dimensional.T.copy()\n        b_matrix = kwargs.get(\"b_matrix\", None)\n")],
    "a static solve after a dynamic one re-uses the velocity right-hand side of the previous call")
mut("c10_solve_without_seterr", "C10", [("forsys/fmatrix.py",
    "        np.seterr(all='raise')\n        tote = len(self.big_edges_to_use)\n",
    "        tote = len(self.big_edges_to_use)\n"),
    ("forsys/general_matrix.py",
    "        np.seterr(all='raise')\n        assert self.lhs_matrix is not None, \"LHS matrix not set\"\n",
    "        assert self.lhs_matrix is not None, \"LHS matrix not set\"\n")],
    "solves no longer switch the calling thread to raise mode. Caught (R2, thread placement) at /repo 0fc4ddc; since fix 41d804a set_velocity_matrix sets the error state at the start of every stress solve, so only a pressure solve on a thread that never solved stresses could still differ, and only if it hits a floating point error",
    expect="neutralised-by-fix")
mut("c09_join_keeps_second_vertex", "C09", [("forsys/virtual_edges.py",
    "    del vertices[v0.id]\n    del vertices[v1.id]\n", "    del vertices[v0.id]\n")],
    "the second end of a contracted interface stays in the vertex dictionary with stale back-references")
mut("c09_frame_sorts_cycles", "C09", [("forsys/frames.py",
    "        for _, cell in self.cells.items():\n            cell.calculate_neighbors()\n",
    "        for _, cell in self.cells.items():\n            cell.calculate_neighbors()\n            if cell.get_area_sign() < 0 and len(cell.neighbors) == 1:\n                cell.vertices.sort(key=lambda v: v.id)\n")],
    "Frame construction reorders the cycle of clockwise cells that have exactly one neighbour")
mut("c10_frame_forces_not_updated_on_resolve", "C10", [("forsys/forsys.py",
    "        self.frames[when].forces = self.forces[when]\n",
    "        if not hasattr(self.frames[when], \"forces\"):\n            self.frames[when].forces = self.forces[when]\n")],
    "Frame.forces keeps the result of the first solve of that frame")
mut("c10_assign_tensions_skips_unchanged_count", "C10", [("forsys/frames.py",
    "        for big_edge_id, big_edge in self.big_edges.items():\n            objects = [self.edges[eid].tension for eid in big_edge.edges]\n            self.big_edges[big_edge_id].tension = np.mean(objects)\n",
    "        for big_edge_id, big_edge in self.big_edges.items():\n            if big_edge.tension and big_edge.external:\n                continue\n            objects = [self.edges[eid].tension for eid in big_edge.edges]\n            if big_edge.tension == 0.0 or not np.isclose(np.mean(objects), 0.0):\n                self.big_edges[big_edge_id].tension = np.mean(objects)\n")],
    "an interface that had a tension keeps it when the new solve assigns exactly zero (excluded by a later angle limit)")
mut("c11_vertex_removal_skips_last_cell", "C11", [("forsys/virtual_edges.py",
    "            for cid in v.ownCells:\n                cells[cid].vertices.remove(v)\n",
    "            for cid in v.ownCells:\n                if len(cells[cid].vertices) > 3:\n                    cells[cid].vertices.remove(v)\n")],
    "removed points stay in the cycle of cells that are down to three vertices")
# ---------------------------------------------------------------- behaviour-preserving refactorings
# (expect="clean": every check must stay green on them; they live in /verif/refactors)
mut("refactor_vertex_quiet_add_edge", "ALL", [("forsys/vertex.py",
    "        if eid in self.ownEdges:\n            print(eid, self.ownEdges)\n            print(\"edge already in vertex\")\n            return False\n",
    "        if eid in self.ownEdges:\n            return False\n")],
    "drop the diagnostic prints", expect="clean")
mut("refactor_rename_deletes", "ALL", [("forsys/fmatrix.py", "self.deletes", "self.discarded_junctions_")],
    "rename the internal set of junctions discarded by the angle limit", expect="clean")
mut("refactor_frame_forces_copy", "ALL", [("forsys/forsys.py",
    "        self.frames[when].forces = self.forces[when]\n",
    "        self.frames[when].forces = dict(self.forces[when])\n")],
    "Frame.forces holds an equal copy instead of the same object", expect="clean")
mut("refactor_generate_mesh_swap", "ALL", [("forsys/virtual_edges.py",
    "    edges.clear()\n    for vi in vertexToRemove:\n        del vertices[vi]\n    #### from here\n    edges = {}\n",
    "    edges.clear()\n    for vi in vertexToRemove:\n        vertices.pop(vi)\n    new_edges = {}\n    edges = new_edges\n")],
    "cosmetic rewrite of the rebuild prologue", expect="clean")
mut("refactor_pressures_as_dict", "ALL", [("forsys/forsys.py",
    "        self.pressures[when] = self.pressure_matrices[when].solve_system(**kwargs)\n        self.frames[when].assign_pressures(self.pressures[when], self.pressure_matrices[when].mapping_order)\n",
    "        solution = self.pressure_matrices[when].solve_system(**kwargs)\n        order = self.pressure_matrices[when].mapping_order\n        self.frames[when].assign_pressures(solution, order)\n        self.pressures[when] = {cid: solution[order[cid]] for cid in self.frames[when].cells}\n")],
    "per-frame pressure store keyed by cell id instead of a positional list", expect="clean")


def crlf(s):
    return s.replace("\n", "\r\n").encode()


def main():
    run_pytest = "--pytest" in sys.argv
    only = [a for a in sys.argv[1:] if not a.startswith("--")]
    os.makedirs(OUT, exist_ok=True)
    for name, prop, edits, note, expect in M:
        if only and not any(o in name for o in only):
            continue
        tmp = tempfile.mkdtemp(prefix="mk-mut-", dir="/dev/shm")
        try:
            for side in ("a", "b"):
                shutil.copytree(os.path.join(REPO, "forsys"), os.path.join(tmp, side, "forsys"))
            for f, old, new in edits:
                p = os.path.join(tmp, "b", f)
                data = open(p, "rb").read()
                o, n = crlf(old), crlf(new)
                if data.count(o) < 1:
                    o, n = old.encode(), new.encode()
                assert data.count(o) == 1 or (expect == "clean" and data.count(o) >= 1), (name, f, data.count(o))
                open(p, "wb").write(data.replace(o, n))
            d = subprocess.run(["diff", "-ru", "a", "b"], cwd=tmp, stdout=subprocess.PIPE).stdout
            assert d, name
            outdir = OUT if expect != "clean" else os.path.join(os.path.dirname(OUT), "refactors")
            os.makedirs(outdir, exist_ok=True)
            with open(os.path.join(outdir, name + ".patch"), "wb") as fo:
                fo.write(f"# property: {prop}\n# expect: {expect}\n# note: {note}\n".encode())
                fo.write(d)
            msg = ""
            if run_pytest:
                for extra in ("tests", "examples"):
                    os.symlink(os.path.join(REPO, extra), os.path.join(tmp, "b", extra))
                env = dict(os.environ, PYTHONPATH=os.path.join(tmp, "b"), PYTHONDONTWRITEBYTECODE="1")
                p = subprocess.run(["/venv/bin/python", "-m", "pytest", "-q", "-p", "no:cacheprovider", "--timeout=900", "-n", "8", "-x"],
                                   cwd=os.path.join(tmp, "b"), env=env, stdout=subprocess.PIPE, stderr=subprocess.STDOUT)
                msg = p.stdout.decode().strip().splitlines()[-1]
            print(name, prop, msg)
            sys.stdout.flush()
        finally:
            shutil.rmtree(tmp, ignore_errors=True)


main()
